//! Reader for the notation `{:?}` prints for trees (`Test(Name("a"))`, `And(Test(True), Action(Print))`, pretty-printed or not),
//! and builders from it to the library's public AST types — so that a tree the parser never produces can be replayed.
use lipe_find_parser::ast::*;
use lipe_find_parser::{Mode, RunOptions};
use std::rc::Rc;

#[derive(Debug, Clone)]
pub enum T {
    App(String, Vec<T>),
    List(Vec<T>),
    Str(String),
    Num(u128),
    Chr(char),
    Flags(Vec<String>),
}

struct P<'a> {
    s: &'a [char],
    i: usize,
}

impl<'a> P<'a> {
    fn ws(&mut self) {
        while self.i < self.s.len() && self.s[self.i].is_whitespace() {
            self.i += 1
        }
    }
    fn peek(&mut self) -> Option<char> {
        self.ws();
        self.s.get(self.i).copied()
    }
    fn eat(&mut self, c: char) -> bool {
        if self.peek() == Some(c) {
            self.i += 1;
            true
        } else {
            false
        }
    }
    fn escape(&mut self) -> Result<char, String> {
        let c = *self.s.get(self.i).ok_or("unterminated escape")?;
        self.i += 1;
        Ok(match c {
            'n' => '\n',
            't' => '\t',
            'r' => '\r',
            '0' => '\0',
            '\\' => '\\',
            '"' => '"',
            '\'' => '\'',
            'u' => {
                if self.s.get(self.i) != Some(&'{') {
                    return Err("bad \\u".into());
                }
                self.i += 1;
                let mut v = 0u32;
                while let Some(&d) = self.s.get(self.i) {
                    self.i += 1;
                    if d == '}' {
                        break;
                    }
                    v = v * 16 + d.to_digit(16).ok_or("bad hex digit")?;
                }
                char::from_u32(v).ok_or("bad code point")?
            }
            o => return Err(format!("unknown escape \\{}", o)),
        })
    }
    fn args(&mut self, close: char) -> Result<Vec<T>, String> {
        let mut v = Vec::new();
        loop {
            if self.eat(close) {
                return Ok(v);
            }
            // `field: value` of a struct: skip the field name
            let save = self.i;
            self.ws();
            let mut j = self.i;
            while j < self.s.len() && (self.s[j].is_alphanumeric() || self.s[j] == '_') {
                j += 1
            }
            if j > self.i && self.s.get(j) == Some(&':') {
                self.i = j + 1;
            } else {
                self.i = save;
            }
            v.push(self.term()?);
            if !self.eat(',') && self.peek() != Some(close) {
                return Err(format!("expected , or {} at {}", close, self.i));
            }
        }
    }
    fn term(&mut self) -> Result<T, String> {
        match self.peek().ok_or("unexpected end")? {
            '"' => {
                self.i += 1;
                let mut out = String::new();
                loop {
                    let c = *self.s.get(self.i).ok_or("unterminated string")?;
                    self.i += 1;
                    match c {
                        '"' => return Ok(T::Str(out)),
                        '\\' => out.push(self.escape()?),
                        c => out.push(c),
                    }
                }
            }
            '\'' => {
                self.i += 1;
                let c = *self.s.get(self.i).ok_or("unterminated char")?;
                self.i += 1;
                let c = if c == '\\' { self.escape()? } else { c };
                if !self.eat('\'') {
                    return Err("unterminated char".into());
                }
                Ok(T::Chr(c))
            }
            '[' => {
                self.i += 1;
                Ok(T::List(self.args(']')?))
            }
            c if c.is_ascii_digit() => {
                let start = self.i;
                while self.i < self.s.len() && (self.s[self.i].is_ascii_alphanumeric() || self.s[self.i] == '_') {
                    self.i += 1
                }
                let w: String = self.s[start..self.i].iter().filter(|c| **c != '_').collect();
                let v = if let Some(h) = w.strip_prefix("0x") {
                    u128::from_str_radix(h, 16)
                } else if let Some(o) = w.strip_prefix("0o") {
                    u128::from_str_radix(o, 8)
                } else {
                    w.parse()
                };
                v.map(T::Num).map_err(|e| format!("bad number {}: {}", w, e))
            }
            c if c.is_alphabetic() || c == '_' => {
                let start = self.i;
                while self.i < self.s.len() && (self.s[self.i].is_alphanumeric() || self.s[self.i] == '_') {
                    self.i += 1
                }
                let name: String = self.s[start..self.i].iter().collect();
                if self.eat('(') {
                    Ok(T::App(name, self.args(')')?))
                } else if self.eat('{') {
                    Ok(T::App(name, self.args('}')?))
                } else if self.peek() == Some('|') {
                    let mut names = vec![name];
                    while self.eat('|') {
                        match self.term()? {
                            T::App(n, a) if a.is_empty() => names.push(n),
                            T::Flags(mut n) => names.append(&mut n),
                            _ => return Err("bad flag list".into()),
                        }
                    }
                    Ok(T::Flags(names))
                } else {
                    Ok(T::App(name, vec![]))
                }
            }
            c => Err(format!("unexpected {:?} at {}", c, self.i)),
        }
    }
}

pub fn read(text: &str) -> Result<T, String> {
    let cs: Vec<char> = text.chars().collect();
    let mut p = P { s: &cs, i: 0 };
    let t = p.term()?;
    if p.peek().is_some() {
        return Err(format!("trailing text at {}", p.i));
    }
    Ok(t)
}

fn app<'a>(t: &'a T) -> Result<(&'a str, &'a [T]), String> {
    match t {
        T::App(n, a) => Ok((n.as_str(), a.as_slice())),
        T::Flags(n) if n.len() == 1 => Ok((n[0].as_str(), &[])),
        o => Err(format!("expected a constructor, got {:?}", o)),
    }
}

fn one(a: &[T]) -> Result<&T, String> {
    if a.len() == 1 {
        Ok(&a[0])
    } else {
        Err(format!("expected one argument, got {}", a.len()))
    }
}

fn num(t: &T) -> Result<u128, String> {
    match t {
        T::Num(n) => Ok(*n),
        o => Err(format!("expected a number, got {:?}", o)),
    }
}

fn text(t: &T) -> Result<String, String> {
    match t {
        T::Str(s) => Ok(s.clone()),
        o => Err(format!("expected a string, got {:?}", o)),
    }
}

fn chr(t: &T) -> Result<char, String> {
    match t {
        T::Chr(c) => Ok(*c),
        o => Err(format!("expected a char, got {:?}", o)),
    }
}

fn narrow<N: TryFrom<u128>>(t: &T) -> Result<N, String> {
    N::try_from(num(t)?).map_err(|_| "number out of range for its field".to_string())
}

fn cmp<V>(t: &T, f: impl Fn(&T) -> Result<V, String>) -> Result<Comparison<V>, String> {
    let (n, a) = app(t)?;
    let v = f(one(a)?)?;
    Ok(match n {
        "GreaterThan" => Comparison::GreaterThan(v),
        "LesserThan" => Comparison::LesserThan(v),
        "Equal" => Comparison::Equal(v),
        o => return Err(format!("unknown comparison {}", o)),
    })
}

fn size(t: &T) -> Result<Size, String> {
    let (n, a) = app(t)?;
    let v: u64 = narrow(one(a)?)?;
    Ok(match n {
        "Byte" => Size::Byte(v),
        "Word" => Size::Word(v),
        "Block" => Size::Block(v),
        "KiloByte" => Size::KiloByte(v),
        "MegaByte" => Size::MegaByte(v),
        "GigaByte" => Size::GigaByte(v),
        "TeraByte" => Size::TeraByte(v),
        o => return Err(format!("unknown size unit {}", o)),
    })
}

fn timespec(t: &T) -> Result<TimeSpec, String> {
    let (n, a) = app(t)?;
    let v: u64 = narrow(one(a)?)?;
    Ok(match n {
        "Second" => TimeSpec::Second(v),
        "Minute" => TimeSpec::Minute(v),
        "Hour" => TimeSpec::Hour(v),
        "Day" => TimeSpec::Day(v),
        o => return Err(format!("unknown time unit {}", o)),
    })
}

/// a `Size` (Ok) or a `TimeSpec` (Err) term
pub fn size_or_time(t: &T) -> Result<Result<Size, TimeSpec>, String> {
    match size(t) {
        Ok(s) => Ok(Ok(s)),
        Err(_) => timespec(t).map(Err),
    }
}

fn filetype(t: &T) -> Result<FileType, String> {
    Ok(match app(t)?.0 {
        "Block" => FileType::Block,
        "Character" => FileType::Character,
        "Directory" => FileType::Directory,
        "Pipe" => FileType::Pipe,
        "File" => FileType::File,
        "Link" => FileType::Link,
        "Socket" => FileType::Socket,
        o => return Err(format!("unknown file type {}", o)),
    })
}

fn mode(t: &T) -> Result<Mode, String> {
    // Mode(0o644) (any bits, kept as they are)  or  Mode(S_IRUSR | S_IWUSR)  as Debug prints it
    let (n, a) = app(t)?;
    if n != "Mode" {
        return Err(format!("expected Mode(..), got {}", n));
    }
    match one(a)? {
        T::Num(v) => Ok(Mode::from_bits_retain(u32::try_from(*v).map_err(|_| "mode bits out of range")?)),
        T::Flags(names) => {
            let mut m = Mode::empty();
            for nm in names {
                m |= Mode::from_name(nm).ok_or(format!("unknown mode flag {}", nm))?;
            }
            Ok(m)
        }
        T::App(nm, r) if r.is_empty() => Mode::from_name(nm).ok_or(format!("unknown mode flag {}", nm)),
        o => Err(format!("bad mode {:?}", o)),
    }
}

fn permcheck(t: &T) -> Result<PermCheck, String> {
    let (n, a) = app(t)?;
    let (pn, pa) = app(one(a)?)?;
    if pn != "Permission" {
        return Err("expected Permission(..)".into());
    }
    let p = Permission(mode(one(pa)?)?);
    Ok(match n {
        "AtLeast" => PermCheck::AtLeast(p),
        "Any" => PermCheck::Any(p),
        "Equal" => PermCheck::Equal(p),
        o => return Err(format!("unknown permission check {}", o)),
    })
}

fn special(t: &T) -> Result<FormatSpecial, String> {
    let (n, a) = app(t)?;
    Ok(match n {
        "Alarm" => FormatSpecial::Alarm,
        "Backspace" => FormatSpecial::Backspace,
        "Clear" => FormatSpecial::Clear,
        "Form" => FormatSpecial::Form,
        "Newline" => FormatSpecial::Newline,
        "CarriageReturn" => FormatSpecial::CarriageReturn,
        "TabHorizontal" => FormatSpecial::TabHorizontal,
        "TabVertical" => FormatSpecial::TabVertical,
        "Null" => FormatSpecial::Null,
        "Backslash" => FormatSpecial::Backslash,
        "Ascii" => FormatSpecial::Ascii(narrow(one(a)?)?),
        o => return Err(format!("unknown special {}", o)),
    })
}

fn field(t: &T) -> Result<FormatField, String> {
    use FormatField::*;
    let (n, a) = app(t)?;
    Ok(match n {
        "Percent" => Percent,
        "Access" => Access,
        "AccessFormatted" => AccessFormatted(chr(one(a)?)?),
        "DiskSizeBlocks" => DiskSizeBlocks,
        "Change" => Change,
        "ChangeFormatted" => ChangeFormatted(chr(one(a)?)?),
        "Depth" => Depth,
        "DeviceNumber" => DeviceNumber,
        "Basename" => Basename,
        "FsType" => FsType,
        "Group" => Group,
        "GroupId" => GroupId,
        "Parents" => Parents,
        "StartingPoint" => StartingPoint,
        "InodeDecimal" => InodeDecimal,
        "DiskSizeKilos" => DiskSizeKilos,
        "SymbolicTarget" => SymbolicTarget,
        "PermissionsOctal" => PermissionsOctal,
        "PermissionsSymbolic" => PermissionsSymbolic,
        "Hardlinks" => Hardlinks,
        "Name" => Name,
        "NameWithoutStartingPoint" => NameWithoutStartingPoint,
        "DiskSizeBytes" => DiskSizeBytes,
        "Sparseness" => Sparseness,
        "Modify" => Modify,
        "ModifyFormatted" => ModifyFormatted(chr(one(a)?)?),
        "User" => User,
        "UserId" => UserId,
        "Type" => Type,
        "TypeSymlink" => TypeSymlink,
        "SecurityContext" => SecurityContext,
        "FileId" => FileId,
        "ProjectId" => ProjectId,
        "MirrorCount" => MirrorCount,
        "StripeCount" => StripeCount,
        "StripeSize" => StripeSize,
        "XAttr" => XAttr(text(one(a)?)?),
        o => return Err(format!("unknown format field {}", o)),
    })
}

fn elements(t: &T) -> Result<Vec<FormatElement>, String> {
    match t {
        T::List(v) => v
            .iter()
            .map(|e| {
                let (n, a) = app(e)?;
                Ok(match n {
                    "Literal" => FormatElement::Literal(text(one(a)?)?),
                    "Field" => FormatElement::Field(field(one(a)?)?),
                    "Special" => FormatElement::Special(special(one(a)?)?),
                    o => return Err(format!("unknown format element {}", o)),
                })
            })
            .collect(),
        o => Err(format!("expected a list of format elements, got {:?}", o)),
    }
}

fn test(t: &T) -> Result<Test, String> {
    let (n, a) = app(t)?;
    let s = || one(a).and_then(text);
    let c32 = || one(a).and_then(|x| cmp(x, narrow::<u32>));
    Ok(match n {
        "AccessTime" => Test::AccessTime(cmp(one(a)?, timespec)?),
        "ChangeTime" => Test::ChangeTime(cmp(one(a)?, timespec)?),
        "ModifyTime" => Test::ModifyTime(cmp(one(a)?, timespec)?),
        "Empty" => Test::Empty,
        "Executable" => Test::Executable,
        "False" => Test::False,
        "GroupId" => Test::GroupId(c32()?),
        "InodeNumber" => Test::InodeNumber(c32()?),
        "InsensitiveName" => Test::InsensitiveName(s()?),
        "InsensitivePath" => Test::InsensitivePath(s()?),
        "Links" => Test::Links(cmp(one(a)?, narrow::<u64>)?),
        "MirrorCount" => Test::MirrorCount(c32()?),
        "Name" => Test::Name(s()?),
        "Path" => Test::Path(s()?),
        "Perm" => Test::Perm(permcheck(one(a)?)?),
        "Pool" => Test::Pool(s()?),
        "Readable" => Test::Readable,
        "Size" => Test::Size(cmp(one(a)?, size)?),
        "StripeCount" => Test::StripeCount(c32()?),
        "True" => Test::True,
        "Type" => Test::Type(match one(a)? {
            T::List(v) => v.iter().map(filetype).collect::<Result<_, _>>()?,
            o => return Err(format!("expected a list of file types, got {:?}", o)),
        }),
        "UserId" => Test::UserId(c32()?),
        "Writable" => Test::Writable,
        "Xattr" => Test::Xattr(s()?),
        "XattrMatch" => {
            if a.len() != 2 {
                return Err("XattrMatch takes two strings".into());
            }
            Test::XattrMatch(text(&a[0])?, text(&a[1])?)
        }
        "AccessNewer" => Test::AccessNewer(s()?),
        "ChangeNewer" => Test::ChangeNewer(s()?),
        "FsType" => Test::FsType(s()?),
        "Group" => Test::Group(s()?),
        "InsensitiveLinkName" => Test::InsensitiveLinkName(s()?),
        "InsensitiveRegex" => Test::InsensitiveRegex(s()?),
        "LinkName" => Test::LinkName(s()?),
        "ModifyNewer" => Test::ModifyNewer(s()?),
        "NoGroup" => Test::NoGroup,
        "NoUser" => Test::NoUser,
        "Regex" => Test::Regex(s()?),
        "Samefile" => Test::Samefile(s()?),
        "User" => Test::User(s()?),
        o => return Err(format!("unknown test {}", o)),
    })
}

#[allow(deprecated)]
fn action(t: &T) -> Result<Action, String> {
    let (n, a) = app(t)?;
    let s = || one(a).and_then(text);
    Ok(match n {
        "FileList" => Action::FileList(s()?),
        "FilePrint" => Action::FilePrint(s()?),
        "FilePrintNull" => Action::FilePrintNull(s()?),
        "FilePrintFormatted" => {
            if a.len() != 2 {
                return Err("FilePrintFormatted takes a string and a list".into());
            }
            Action::FilePrintFormatted(text(&a[0])?, elements(&a[1])?)
        }
        "List" => Action::List,
        "Print" => Action::Print,
        "PrintNull" => Action::PrintNull,
        "PrintFormatted" => Action::PrintFormatted(elements(one(a)?)?),
        "PrintFid" => Action::PrintFid,
        "Prune" => Action::Prune,
        "Quit" => Action::Quit,
        "DefaultPrint" => Action::DefaultPrint,
        o => return Err(format!("unknown action {}", o)),
    })
}

fn global(t: &T) -> Result<GlobalOption, String> {
    let (n, a) = app(t)?;
    Ok(match n {
        "Depth" => GlobalOption::Depth,
        "MaxDepth" => GlobalOption::MaxDepth(narrow(one(a)?)?),
        "MinDepth" => GlobalOption::MinDepth(narrow(one(a)?)?),
        "Threads" => GlobalOption::Threads(narrow(one(a)?)?),
        o => return Err(format!("unknown global option {}", o)),
    })
}

pub fn expression(t: &T) -> Result<Expression, String> {
    let (n, a) = app(t)?;
    let two = |a: &[T]| -> Result<(Expression, Expression), String> {
        if a.len() != 2 {
            return Err("binary operator takes two trees".into());
        }
        Ok((expression(&a[0])?, expression(&a[1])?))
    };
    Ok(match n {
        "Test" => Expression::Test(test(one(a)?)?),
        "Action" => Expression::Action(action(one(a)?)?),
        "Global" => Expression::Global(global(one(a)?)?),
        "Positional" => match app(one(a)?)?.0 {
            "XDev" => Expression::Positional(PositionalOption::XDev),
            o => return Err(format!("unknown positional option {}", o)),
        },
        "Operator" => expression(one(a)?)?,
        "Precedence" => Expression::Operator(Rc::new(Operator::Precedence(expression(one(a)?)?))),
        "Not" => Expression::Operator(Rc::new(Operator::Not(expression(one(a)?)?))),
        "And" => {
            let (l, r) = two(a)?;
            Expression::Operator(Rc::new(Operator::And(l, r)))
        }
        "Or" => {
            let (l, r) = two(a)?;
            Expression::Operator(Rc::new(Operator::Or(l, r)))
        }
        "List" => {
            let (l, r) = two(a)?;
            Expression::Operator(Rc::new(Operator::List(l, r)))
        }
        o => return Err(format!("unknown tree node {}", o)),
    })
}

pub fn options(t: &T) -> Result<RunOptions, String> {
    // RunOptions { depth: false, threads: Some(3) }
    let (n, a) = app(t)?;
    if n != "RunOptions" || a.len() != 2 {
        return Err("expected RunOptions { depth: .., threads: .. }".into());
    }
    let mut o = RunOptions::default();
    o.depth = match app(&a[0])?.0 {
        "true" => true,
        "false" => false,
        x => return Err(format!("bad bool {}", x)),
    };
    o.threads = match app(&a[1])? {
        ("None", _) => None,
        ("Some", v) => Some(narrow(one(v)?)?),
        (x, _) => return Err(format!("bad option {}", x)),
    };
    Ok(o)
}
