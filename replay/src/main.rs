//! fpreplay — run concrete inputs through the public API of the real library and print what happens.
//!
//! stdin: one request per line, tab separated:  `parse<TAB>INPUT`  or  `compile<TAB>INPUT<TAB>MDT`
//!        `ast<TAB>TREE[<TAB>OPTIONS[<TAB>MDT]]` compiles a tree written in the notation `{:?}` prints (so shapes the parser
//!        never builds can be replayed too: `Test(Type([]))`, `Action(PrintFormatted([Special(Ascii(511))]))`, …)
//! stdout: one line per request: `OK<TAB>…` / `ERR<TAB>…` / `PANIC<TAB>message`, with \n and \t escaped.
use std::io::BufRead;
use std::panic;

fn esc(s: &str) -> String {
    s.replace('\\', "\\\\").replace('\n', "\\n").replace('\t', "\\t").replace('\r', "\\r")
}

fn unesc(s: &str) -> String {
    let mut out = String::new();
    let mut it = s.chars();
    while let Some(c) = it.next() {
        if c == '\\' {
            match it.next() {
                Some('n') => out.push('\n'),
                Some('t') => out.push('\t'),
                Some('r') => out.push('\r'),
                Some('\\') => out.push('\\'),
                Some(o) => {
                    out.push('\\');
                    out.push(o)
                }
                None => out.push('\\'),
            }
        } else {
            out.push(c)
        }
    }
    out
}

mod term;

macro_rules! table_of {
    ($c:expr) => {{
        let mut t: Vec<String> = $c.io_map().map(|m| m.iter().map(|(k, v)| format!("{}={:?}", k, v)).collect()).unwrap_or_default();
        t.sort();
        t.join(";")
    }};
}

fn compiled(exp: &lipe_find_parser::ast::Expression, opt: &lipe_find_parser::RunOptions, mdt: &str) -> Vec<String> {
    match lipe_find_parser::compile(exp, opt) {
        Ok(c) => {
            let mut table: Vec<String> = c
                .io_map()
                .map(|m| m.iter().map(|(k, v)| format!("{}={:?}", k, v)).collect())
                .unwrap_or_default();
            table.sort();
            vec!["OK".into(), c.scheme(mdt), table.join(";")]
        }
        Err(e) => vec!["CERR".into(), e.to_string()],
    }
}

/// A request that does not return within the limit (FPREPLAY_LIMIT_MS, default 20 s) is reported as `HANG` and the process exits
/// with status 3 (a stuck thread cannot be stopped); the caller restarts the replayer on the remaining requests.
static STARTED_MS: std::sync::atomic::AtomicU64 = std::sync::atomic::AtomicU64::new(0);

fn now_ms() -> u64 {
    std::time::SystemTime::now().duration_since(std::time::UNIX_EPOCH).map(|d| d.as_millis() as u64).unwrap_or(0)
}

fn main() {
    panic::set_hook(Box::new(|_| {}));
    let limit: u64 = std::env::var("FPREPLAY_LIMIT_MS").ok().and_then(|v| v.parse().ok()).unwrap_or(20_000);
    std::thread::spawn(move || loop {
        std::thread::sleep(std::time::Duration::from_millis(200));
        let st = STARTED_MS.load(std::sync::atomic::Ordering::SeqCst);
        if st != 0 && now_ms().saturating_sub(st) > limit {
            use std::io::Write;
            println!("HANG\tno answer within {} ms", limit);
            let _ = std::io::stdout().flush();
            std::process::exit(3);
        }
    });
    let stdin = std::io::stdin();
    for line in stdin.lock().lines() {
        let line = line.unwrap();
        STARTED_MS.store(now_ms(), std::sync::atomic::Ordering::SeqCst);
        let parts: Vec<String> = line.split('\t').map(unesc).collect();
        if parts.is_empty() {
            continue;
        }
        let res = panic::catch_unwind(|| match parts[0].as_str() {
            "parse" => match lipe_find_parser::parse(&parts[1]) {
                Ok((opt, exp)) => vec!["OK".into(), format!("{:?}", opt), format!("{:?}", exp)],
                Err(e) => vec!["ERR".into(), e.to_string()],
            },
            "compile" => match lipe_find_parser::parse(&parts[1]) {
                Ok((opt, exp)) => compiled(&exp, &opt, parts.get(2).map(|s| s.as_str()).unwrap_or("/")),
                Err(e) => vec!["ERR".into(), e.to_string()],
            },
            "ast" => match term::read(&parts[1]).and_then(|t| term::expression(&t)) {
                Ok(exp) => {
                    let opt = match parts.get(2).filter(|s| !s.is_empty()) {
                        Some(o) => term::read(o).and_then(|t| term::options(&t)),
                        None => Ok(lipe_find_parser::RunOptions::default()),
                    };
                    match opt {
                        Ok(opt) => compiled(&exp, &opt, parts.get(3).map(|s| s.as_str()).unwrap_or("/")),
                        Err(e) => vec!["ERR".into(), format!("bad options notation: {}", e)],
                    }
                }
                Err(e) => vec!["ERR".into(), format!("bad tree notation: {}", e)],
            },
            // the tree query helpers on a directly built tree (any shape, option and precedence nodes included)
            "query" => match term::read(&parts[1]).and_then(|t| term::expression(&t)) {
                Ok(exp) => vec!["OK".into(), exp.action().to_string(), exp.complex_frames().to_string()],
                Err(e) => vec!["ERR".into(), format!("bad tree notation: {}", e)],
            },
            // the unit helpers: `units<TAB>Size-or-TimeSpec term`, e.g. KiloByte(3) -> mult and byte_size, Hour(2) -> secs
            "units" => match term::read(&parts[1]) {
                Ok(t) => match term::size_or_time(&t) {
                    Ok(Ok(sz)) => vec!["OK".into(), sz.mult().to_string(), sz.byte_size().to_string()],
                    Ok(Err(ts)) => vec!["OK".into(), ts.secs().to_string()],
                    Err(e) => vec!["ERR".into(), e],
                },
                Err(e) => vec!["ERR".into(), format!("bad notation: {}", e)],
            },
            // one compilation rendered several times: `renders<TAB>INPUT<TAB>MDT1<TAB>MDT2…` -> every program, then the table
            // as reported before and after the renderings
            "renders" => match lipe_find_parser::parse(&parts[1]) {
                Ok((opt, exp)) => match lipe_find_parser::compile(&exp, &opt) {
                    Ok(c) => {
                        let mut out = vec!["OK".to_string(), table_of!(c)];
                        for mdt in &parts[2..] {
                            out.push(c.scheme(mdt));
                        }
                        out.push(table_of!(c));
                        out
                    }
                    Err(e) => vec!["CERR".into(), e.to_string()],
                },
                Err(e) => vec!["ERR".into(), e.to_string()],
            },
            // compile with the wall clock read before and after the call (for the clock-window clause of C15)
            "timed" => {
                let now = || std::time::SystemTime::now().duration_since(std::time::UNIX_EPOCH).map(|d| d.as_secs()).unwrap_or(0);
                match lipe_find_parser::parse(&parts[1]) {
                    Ok((opt, exp)) => {
                        let t0 = now();
                        let r = lipe_find_parser::compile(&exp, &opt);
                        let t1 = now();
                        match r {
                            Ok(c) => vec!["OK".into(), t0.to_string(), t1.to_string(), c.scheme("/")],
                            Err(e) => vec!["CERR".into(), e.to_string()],
                        }
                    }
                    Err(e) => vec!["ERR".into(), e.to_string()],
                }
            }
            "sleep" => {
                std::thread::sleep(std::time::Duration::from_millis(parts[1].parse().unwrap_or(0)));
                vec!["OK".into(), "slept".into()]
            }
            other => vec!["ERR".into(), format!("unknown request {}", other)],
        });
        STARTED_MS.store(0, std::sync::atomic::Ordering::SeqCst);
        match res {
            Ok(fields) => println!("{}", fields.iter().map(|f| esc(f)).collect::<Vec<_>>().join("\t")),
            Err(p) => {
                let msg = p
                    .downcast_ref::<String>()
                    .cloned()
                    .or_else(|| p.downcast_ref::<&str>().map(|s| s.to_string()))
                    .unwrap_or_default();
                println!("PANIC\t{}", esc(&msg))
            }
        }
    }
}
