//! fpreplay — run concrete inputs through the public API of the real library and print what happens.
//!
//! stdin: one request per line, tab separated:  `parse<TAB>INPUT`  or  `compile<TAB>INPUT<TAB>MDT`
//! stdout: one line per request: `OK<TAB>…` / `ERR<TAB>…` / `PANIC<TAB>message`, with \n and \t escaped.
use std::io::BufRead;
use std::panic;

fn esc(s: &str) -> String {
    s.replace('\\', "\\\\").replace('\n', "\\n").replace('\t', "\\t")
}

fn unesc(s: &str) -> String {
    let mut out = String::new();
    let mut it = s.chars();
    while let Some(c) = it.next() {
        if c == '\\' {
            match it.next() {
                Some('n') => out.push('\n'),
                Some('t') => out.push('\t'),
                Some('\\') => out.push('\\'),
                Some(o) => {
                    out.push('\\');
                    out.push(o)
                }
                None => out.push('\\'),
            }
        } else {
            out.push(c)
        }
    }
    out
}

fn main() {
    panic::set_hook(Box::new(|_| {}));
    let stdin = std::io::stdin();
    for line in stdin.lock().lines() {
        let line = line.unwrap();
        let parts: Vec<String> = line.split('\t').map(unesc).collect();
        if parts.is_empty() {
            continue;
        }
        let res = panic::catch_unwind(|| match parts[0].as_str() {
            "parse" => match lipe_find_parser::parse(&parts[1]) {
                Ok((opt, exp)) => format!("OK\t{:?}\t{:?}", opt, exp),
                Err(e) => format!("ERR\t{}", e),
            },
            "compile" => match lipe_find_parser::parse(&parts[1]) {
                Ok((opt, exp)) => match lipe_find_parser::compile(&exp, &opt) {
                    Ok(c) => {
                        let mdt = parts.get(2).map(|s| s.as_str()).unwrap_or("/");
                        let mut table: Vec<String> = c
                            .io_map()
                            .map(|m| m.iter().map(|(k, v)| format!("{}={:?}", k, v)).collect())
                            .unwrap_or_default();
                        table.sort();
                        format!("OK\t{}\t{}", c.scheme(mdt), table.join(";"))
                    }
                    Err(e) => format!("CERR\t{}", e),
                },
                Err(e) => format!("ERR\t{}", e),
            },
            // compile with the wall clock read before and after the call (for the clock-window clause of C15)
            "timed" => {
                let now = || std::time::SystemTime::now().duration_since(std::time::UNIX_EPOCH).map(|d| d.as_secs()).unwrap_or(0);
                match lipe_find_parser::parse(&parts[1]) {
                    Ok((opt, exp)) => {
                        let t0 = now();
                        let r = lipe_find_parser::compile(&exp, &opt);
                        let t1 = now();
                        match r {
                            Ok(c) => format!("OK\t{}\t{}\t{}", t0, t1, c.scheme("/")),
                            Err(e) => format!("CERR\t{}", e),
                        }
                    }
                    Err(e) => format!("ERR\t{}", e),
                }
            }
            "sleep" => {
                std::thread::sleep(std::time::Duration::from_millis(parts[1].parse().unwrap_or(0)));
                "OK\tslept".to_string()
            }
            other => format!("ERR\tunknown request {}", other),
        });
        match res {
            Ok(s) => println!("{}", esc(&s).replace("\\t", "\t")),
            Err(p) => {
                let msg = p
                    .downcast_ref::<String>()
                    .cloned()
                    .or_else(|| p.downcast_ref::<&str>().map(|s| s.to_string()))
                    .unwrap_or_default();
                println!("PANIC\t{}", esc(&msg))
            }
        }
    }
}
