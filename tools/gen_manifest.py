#!/usr/bin/env python3
"""Regenerate /verif/MANIFEST.json from tools/props.py (claimed checks) and tools/na.py (not applicable)."""
import json, os, sys
HERE = os.path.dirname(os.path.dirname(os.path.abspath(__file__)))
sys.path.insert(0, os.path.join(HERE, 'tools'))
import props, na

ids = [json.loads(l)['id'] for l in open(os.path.join(HERE, 'properties.jsonl'))]
checks = []
for pid in ids:
    if pid not in props.PROPS:
        continue
    P = props.PROPS[pid]
    checks.append(dict(
        property_id=pid,
        quick_cmd='./check %s --tier quick' % pid,
        thorough_cmd='./check %s --tier thorough' % pid,
        evidence_file='/verif/evidence/%s.json' % pid,
        replay_cmd_template='./check %s --replay {path}' % pid,
        engine='contract-verifier',
        level_claimed=dict(category=P['level'], text=P['scope'], design_ref=P.get('design_ref', 'DESIGN.md §4 ' + pid)),
        level_note='; '.join(props.TRUSTED_BASE[:3] + P.get('trusted', [])) +
                   ('; NOT decided: ' + '; '.join(P['not_decided']) if P.get('not_decided') else ''),
        technique=P.get('technique', 'contract-based deductive verification (Verus/Z3) of the real functions, annotated in place on every run'),
    ))
napp = [dict(property_id=p, reason=na.NA[p]) for p in ids if p not in props.PROPS]
missing = [p for p in ids if p not in props.PROPS and p not in na.NA]
assert not missing, missing
m = dict(
    version=1,
    setup_cmd='./tools/setup.sh',
    hooks=dict(guard='(none)', enable='no hooks: the checks annotate a scratch copy of /repo\'s working tree; Verus/Kani cfgs exist only there',
               baseline_off_cmd='cd /repo && cargo test --workspace --no-fail-fast --offline', source_commits=[], add_only=True),
    engines=[dict(name='contract-verifier', path='/verif/tools/engine.py',
                  serves_properties=[c['property_id'] for c in checks],
                  kind_free_text='annotate.py splices contracts/*.vc into a scratch copy of the real crate; Verus (Z3) discharges every '
                                 'function under both debug_assertions settings; Kani/CBMC decides lifted bit-level fragments')],
    checks=checks,
    not_applicable=napp,
    notes='See DESIGN.md. Exit 2 from a check means inconclusive (lost anchor, unsupported construct, resource limit), never a verdict. An obligation the verifier could not decide in a run (a function fell out of its reach) is a VIOLATION when an input of its witness families fails on the real code; it is accepted as bounded-only (exit 0, printed as BOUNDED-ONLY and listed under coverage.undecided_bounded_only, never among the discharged obligations) when at least 500 such inputs pass and the recorded corpus (golden/corpus.json) is answered as by the last fully verified tree; otherwise exit 2. Bounded stand-ins (BOUNDED.*) run on every check for the functions outside the verifier reach and are listed under coverage.bounded_checks.',
)
json.dump(m, open(os.path.join(HERE, 'MANIFEST.json'), 'w'), indent=1)
print('MANIFEST: %d checks, %d not applicable' % (len(checks), len(napp)))
