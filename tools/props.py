"""Per-property configuration of the contract-based checks (what is claimed, in what scope)."""

TRUSTED_BASE = [
    'Verus 0.2026.09.13 / Z3 / rustc 1.98.1 (verifier, SMT solver, front end)',
    'vstd specifications of std (String::push_str, Vec::push, HashMap::get/insert/contains_key, Option::*, slice::last, wrapping/checked arithmetic)',
    'contracts/*.vc ASSUME.* clauses (assume_specification / axioms), listed per run in coverage.external_body_assumed and the assumption scan',
    'the annotation pass adds text only (verus! wrappers, contracts, ghost code) plus the listed normalisations; the function bodies are /repo\'s text',
    'all of src/find_parser (winnow combinator code) is outside the verifier\'s reach: the parser is assumed to hand the back end well-typed trees',
    'meaning of the emitted Scheme forms in Guile/LiPE (never modelled)',
]

PROPS = {
    'C19': dict(
        level='proof',
        scope='Expression::action, Expression::complex_frames, Size::mult, Size::byte_size, TimeSpec::secs verified in place '
              'against spec functions written from the property statement, for all trees (structural induction, no depth bound, '
              'all five operator variants incl. Precedence and nested List) and all u64 counts.',
        not_decided=[],
    ),
    'C12': dict(
        level='proof',
        scope='TargetScheme::compile for Test, Action, Operator, Expression, PositionalOption, placeholder(), and scheme::compile: '
              'the result is Err exactly when the tree contains (at any depth, incl. dead branches and format strings) one of the '
              'documented unsupported tests/actions/format fields/options, the error kind names such a construct, and every other '
              'parser-shaped tree compiles. All trees, unbounded depth.',
        not_decided=['trees that hold an option node are outside the domain of the compile contract (requires shaped()): covered only by the BOUNDED stand-in BOUNDED.option_nodes',
                     'which node a keyword and its argument parse to (keyword table: winnow combinators) — covered only by the BOUNDED stand-in BOUNDED.parse_refusal '
                     '(every unsupported primary with 18 argument spellings in 5 shapes; labelled bounded, not counted as proved)',
                     'the text of the error message (format!("{:?}") is opaque)',
                     'std iterator plumbing inside <Vec<FormatElement>>::compile (map/collect::<Result>, filter_map/collect, join) is hoisted and '
                     'assumed to apply the verified closures to every element in order (ASSUME.iter_*)',
                     'that the parser only returns trees without Global/Precedence nodes (front end)'],
    ),
    'C09': dict(
        level='proof',
        scope='scheme::compile: the compiled tree is And(expression, default print) exactly when Expression::action() (proved equal to '
              '`an Action node occurs at any depth`, C19) is false, else the expression itself; Operator/Expression::compile emit '
              'the operands in order, each from the buffer state the previous step left, between the opening form and `)`, and '
              'the default print emits exactly `(print-relative-path)`; hence the wrapper encloses the whole expression.',
        not_decided=['that LiPE\'s (and X (print-relative-path)) prints exactly the files where X holds (runtime semantics of the target)',
                     'which tree a word sequence parses to (precedence.rs: winnow combinators) — covered only by the BOUNDED stand-in BOUNDED.parse_grammar '
                     '(all word sequences up to length 5/6 over 8 words against a reference reading of the grammar; labelled bounded, not counted as proved)'],
    ),
    'C10': dict(
        level='proof',
        scope='mode predicate (C19), manager choice in scheme::compile, `io_map is Some <=> needs_frames`, destination-table invariant of '
              'DistributedSchemeManager (tags < counter, injective, whole-map postconditions: equal (destination, terminator) pairs '
              'share one tag, different pairs never do), and routing: in framed mode the table gains exactly the destinations of the '
              'output-producing actions of the tree.',
        not_decided=['byte layout of a frame at run time (the frame lambda is a constant string executed by Guile)',
                     'DistributedSchemeManager::printer_map inverts the tag map: iterator map/collect over a HashMap, assumed contract — covered only by a BOUNDED stand-in (all expressions of up to 3 output actions over 6 destination/terminator kinds, run through the public API on every check; labelled bounded, not counted as proved)'],
    ),
    'C11': dict(
        level='proof',
        scope='representation invariant of both managers proved preserved by every method from Default: every live resource owns an id '
              'interval below the counter, intervals of different resources are disjoint (no id handed out twice, every map injective), '
              'a port\'s mutex is the next id, every printer is keyed by an existing port; whole-map postconditions (identical requests '
              'share, requests differing in any key component get fresh ids, all other entries untouched).',
        not_decided=['scoping of the generated names inside the emitted let* at run time (Guile)'],
    ),
    'C13': dict(
        level='proof',
        scope='RunOptions::update is total (no precondition, no panic) and records exactly: Depth sets depth only, Threads(v) sets '
              'threads = Some(v) only, anything else changes nothing; lemma: folding update in input order yields the last -threads '
              'value and depth iff some -depth occurred; scheme::compile emits the runtime-default thread expression when none was given.',
        not_decided=['position independence, the leading-run rule, `an option inside the expression behaves as -true`, `no option reaches '
                     'the tree`: winnow combinator code in _parse, outside the verifier — covered only by the BOUNDED stand-in '
                     'BOUNDED.parse_options (339 inputs through the public API; labelled bounded, not counted as proved)'],
    ),
    'C03': dict(
        level='proof',
        kani=['format', 'units', 'timespec', 'filetype', 'permission', 'target_scheme'],
        scope='every function verified in place (see coverage.functions_verified_for_safety) is proved free of panics (unwrap, unreachable!, '
              'todo!, index), arithmetic overflow and non-termination, for all parser-shaped trees with fewer than 2^30 nodes, under '
              'both debug_assertions settings; lifted front-end fragments with unwrap()s are decided by Kani over the domain the '
              'adjacent combinator admits.',
        not_decided=['the hoisted leaves (coverage.assumption_scan): the clock read duration_since(UNIX_EPOCH).unwrap(), std iterator plumbing, slice join, str::contains',
                     'all combinator code incl. parse()\'s into_inner().unwrap() and ParserError::dispatch; thiserror\'s Display — covered only by the '
                     'BOUNDED stand-in BOUNDED.parse_total (3613 rejected / mutated / long non-ASCII inputs; labelled bounded, not counted as proved)'],
    ),
    'C17': dict(
        level='proof',
        kani=['format'],
        scope='the same functional postconditions are discharged with -C debug-assertions=on and =off and overflow freedom is proved, so '
              'neither cfg(debug_assertions) arms nor overflow checking can be observed through a function under contract.',
        not_decided=['front end (combinator code): outside the verifier — covered only by the BOUNDED stand-in BOUNDED.profile_agreement (a debug and a '
                     'release build answer about 25k parse/compile requests identically; labelled bounded, not counted as proved)'],
    ),
    'C07': dict(
        level='proof',
        kani=['units', 'timespec', 'permission'],
        scope='count*unit: Size::byte_size returns exactly count*unit for every u64 count (128-bit result, overflow freedom proved); '
              'unit tables (C19); the thread count and comparison operands reach the emitted text without narrowing conversions.',
        not_decided=['digit run -> integer (str::parse::<uN>, winnow glue): outside the verifier — covered only by the BOUNDED stand-in '
                     'BOUNDED.parse_numbers (342 boundary arguments; labelled bounded, not counted as proved)'],
    ),
    'C15': dict(
        level='proof',
        scope='every contract is functional: ids, sharing tables, io_map and the structure of the emitted text are functions of '
              '(tree, options); compile builds its manager from Default; no verified function reads global state: one PURE.<fn> obligation per '
              'verified function (its body is read by the verifier, which rejects statics, thread-locals, interior mutability and I/O; the callees '
              'outside it are the declared ASSUME/KANI items).',
        not_decided=['parse determinism (combinators) — covered only by the BOUNDED stand-in BOUNDED.sequence (A, B, A, C, A in a fresh process for all ordered '
                     'pairs of twenty inputs; labelled bounded, not counted as proved)',
                     'the clock window of time tests: no clock model in the verifier — covered only by the BOUNDED stand-in BOUNDED.clock_window (five '
                     'time-test compilations more than a second apart in one process, two right after a refused compilation; labelled bounded, not counted as proved)'],
    ),
    'C08': dict(
        level='proof',
        kani=['permission', 'target_scheme'],
        scope='clause algebra: for every operator, non-empty who-set, non-empty perm-set and 9-bit mode the real clause constructor '
              '(lifted from PartialPermission::parse) followed by the real PartialPermission::update equals chmod\'s rule '
              '(Kani, full domain, loop-free: complete); letter table; fold seed/step; octal bits <-> Mode for every u32; '
              'the 07777 mask; and (Verus, text layer) compile_perm_check emits the all-bits-equal / all-given-bits-set / '
              'any-given-bit-set comparison for Equal / AtLeast / Any over exactly the bits of the mode.',
        not_decided=['prefix dispatch (none, -, /) and the [ugoa]+[+-=][rwx]+ tokenisation (winnow combinators): covered only by the BOUNDED stand-in '
                     'BOUNDED.parse_perm (all octal values, all single clauses, two-clause lists; labelled bounded, not counted as proved)',
                     'u32::from_str_radix(_, 8) (std)', 'std Iterator::fold applies the step to the clauses in order'],
        trusted=['Kani 0.68 / CBMC 6.11; bitflags 2.x is executed, not modelled',
                 'winnow hands each lifted closure only what its combinator admits (domain anchors checked present)'],
    ),
    'C04': dict(
        level='proof',
        scope='string_escape / template_escape verified in place (loop invariants) against esc / tesc; lemma: for every user string s and '
              'every continuation, the reader decodes `esc(s)"rest` to exactly s and stops at that quote; and the exact emitted text of '
              'every interpolation site outside format strings is literal · esc(user) · literal: matcher patterns (both managers), '
              'output file names, -pool, -xattr, -xattr-match (both arguments), the device path; generated names contain no user text; '
              'format strings: the emitted form is exactly (format #f "<template>" <arguments>) with the template the concatenation of '
              'tesc(literal text) (quote, backslash and tilde escaped), the fixed placeholders and the escapes, strftime selectors and '
              '%{xattr:NAME} names as escaped string literals; lemma: the template of every supported format is read through by the '
              'string reader and ends exactly at the closing quote the compiler emits (compositional reads_through lemmas).',
        not_decided=['`reads back as exactly two top-level forms` for the whole program (no reader specification of the full Scheme grammar)',
                     'which characters a word or quoted string may contain (winnow combinators in prelude.rs)'],
    ),
    'C20': dict(
        level='proof',
        scope='CompiledExpression::scheme(&self, mdt) returns exactly render_text(self, esc(mdt)): the stored parts, unchanged, around one '
              'string literal holding the escaped path — a pure function of (compiled expression, path), so equal paths give identical '
              'programs and different paths differ only inside that literal, which reads back as the path (C04 lemma); io_map(&self) '
              'returns a table equal to the stored one; both take &self over fields without interior mutability.',
        not_decided=[],
    ),
}
