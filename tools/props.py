"""Per-property configuration of the contract-based checks (what is claimed, in what scope)."""

TRUSTED_BASE = [
    'Verus 0.2026.09.13 / Z3 / rustc 1.98.1 (verifier, SMT solver, front end)',
    'vstd specifications of std (String::push_str, Vec::push, HashMap::get/insert/contains_key, Option::*, slice::last, wrapping/checked arithmetic)',
    'contracts/*.vc ASSUME.* clauses (assume_specification / axioms), listed per run in coverage.external_body_assumed and the assumption scan',
    'the annotation pass adds text only (verus! wrappers, contracts, ghost code) plus the listed normalisations; the function bodies are /repo\'s text',
    'all of src/find_parser (winnow combinator code) is outside the verifier\'s reach: the parser is assumed to hand the back end well-typed trees',
    'meaning of the emitted Scheme forms in Guile/LiPE (never modelled)',
]

PROPS = {
    'C19': dict(
        level='proof',
        scope='Expression::action, Expression::complex_frames, Size::mult, Size::byte_size, TimeSpec::secs verified in place '
              'against spec functions written from the property statement, for all trees (structural induction, no depth bound) '
              'and all u64 counts.',
        not_decided=[],
    ),
    'C12': dict(level='proof', scope='refusal iff unsupported construct, for all parser-shaped trees', not_decided=[]),
    'C09': dict(level='proof', scope='wrapping decision and operand order', not_decided=[]),
    'C10': dict(level='proof', scope='mode rule, manager choice, table', not_decided=[]),
    'C11': dict(level='proof', scope='id allocation discipline', not_decided=[]),
    'C13': dict(level='proof', scope='RunOptions::update and thread emission', not_decided=[]),
    'C03': dict(level='proof', scope='panic freedom of functions under contract', not_decided=[]),
    'C17': dict(level='proof', scope='both debug_assertions configurations', not_decided=[]),
    'C07': dict(level='proof', scope='count*unit', not_decided=[]),
    'C15': dict(level='proof', scope='functional contracts', not_decided=[]),
}
