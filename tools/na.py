"""Properties not claimed, with the reason (→ MANIFEST.not_applicable)."""
NB = 'check not built yet in this session (planned, see DESIGN.md §4); not claimed until its obligations are discharged on every run'
NA = {
    'C01': 'operator grammar: src/find_parser/precedence.rs consists only of winnow combinator values (repeat/fold/alt/cut_err over closures); no contract can be attached to a function body the verifier can read without formalising winnow, and Kani did not finish a 2-token symbolic input in 6.5 min. Proving a hand-written recursive-descent look-alike would be proving a model.',
    'C02': 'translation validity quantifies over executions of the emitted Scheme in Guile/LiPE; no contract on a Rust function can state it without a formal semantics of the target. Its Rust-side ingredients (operand order, unit tables, masks, wrapping decision) are discharged under C09/C19/C08/C07.',
    'C05': 'keyword vocabulary and argument languages are the ordered alt((…)) of literals and the unary!/binary! macros: winnow combinator code, same reason as C01. The plain-Rust unit-letter tables embedded in it are covered under C07.',
    'C06': 'blank skipping, word terminators, operator synonyms and parenthesis elision are all winnow combinator code (same reason as C01).',
    'C14': 'format-string segmentation is winnow combinator code in src/find_parser/format.rs; only the numeric conversion inside the octal escape is reachable and is covered under C03.',
    'C16': 'a property of all schedules of a foreign runtime (Guile threads) executing generated text; Rust contracts are silent on it. The port/mutex pairing it relies on is proved under C11.',
    'C18': 'depends on which context labels winnow accumulates and where its cursor stops at failure: combinator behaviour, no contract within reach can express it.',
    
    
}
