#!/bin/bash
# harmless_run.sh : apply each behaviour-preserving refactoring in /verif/harmless to /repo, run every check, undo.
# Expected: exit 0 (or exit 2 when an anchor is lost) — never a VIOLATION.
cd /repo && git diff --quiet || { echo "/repo dirty"; exit 2; }
for d in /verif/harmless/h*.diff; do
  n=$(basename $d .diff)
  git -C /repo apply $d || { echo "$n: does not apply"; continue; }
  res=""
  for p in $(python3 -c "import json;print(' '.join(c['property_id'] for c in json.load(open('/verif/MANIFEST.json'))['checks']))"); do
    out=$(cd /verif && VERIF_EVIDENCE_DIR=/tmp/seed-evidence ./check $p 2>&1); rc=$?
    res="$res $p:$rc"
    if [ $rc -ne 0 ]; then echo "$out" | grep -E "^(VIOLATION|INCONCLUSIVE|  obligation)" | head -4 | cut -c1-220; fi
  done
  echo "== $n :$res"
  git -C /repo checkout -- .
done
