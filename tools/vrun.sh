#!/bin/bash
# usage: vrun.sh <outdir> [extra verus args]   — annotate /repo and run verus once (development helper)
set -u
HERE="$(cd "$(dirname "$0")/.." && pwd)"
OUT="$1"; shift
python3 "$HERE/tools/annotate.py" --repo "${VERIF_REPO:-/repo}" --out "$OUT" "$HERE"/contracts/*.vc || exit 2
D="$HERE/.cache/vdeps/deps"
EXT=""
for c in bitflags log thiserror winnow instant; do EXT="$EXT --extern $c=$(ls $D/lib$c-*.rlib | head -1)"; done
cd "$OUT" && verus src/lib.rs --crate-type=lib --crate-name lipe_find_parser --edition 2021 -L dependency=$D $EXT "$@"
