#!/usr/bin/env python3
"""vcheck.py — decide one property of /verif/properties.jsonl by contract-based deductive verification.

    vcheck.py <PROPERTY-ID> [--tier quick|thorough] [--replay FILE] [--keep]

Pipeline (every run, from /repo's current working tree):
  1. annotate.py: copy the crate to a scratch directory, wrap the back-end files in verus!{} and
     splice the contracts of /verif/contracts/*.vc into the real function texts;
  2. run Verus on the whole crate, once with debug assertions on and once with them off;
  3. where the property has bit-level obligations, lift the named fragments of the real source
     into Kani harness modules (tools/kani_run.py) and run CBMC on them;
  4. map every verifier diagnostic back to an obligation id (function, kind, contract clause),
     compare with known_findings.json, print KNOWN-FINDING / VIOLATION lines, write evidence.

Exit status: 0 property held on everything checked; 1 at least one VIOLATION line printed;
2 inconclusive (lost anchor, construct the verifier does not support, resource limit, tool failure) —
never a verdict.
"""
import argparse
import concurrent.futures
import glob
import hashlib
import json
import os
import re
import shutil
import subprocess
import sys
import tempfile
import time

HERE = os.path.dirname(os.path.dirname(os.path.abspath(__file__)))
sys.path.insert(0, os.path.join(HERE, 'tools'))
import annotate as ann  # noqa: E402

REPO = os.environ.get('VERIF_REPO', '/repo')
VDEPS = os.path.join(HERE, '.cache', 'vdeps', 'deps')
VERUS_TOOLCHAIN = '1.98.1-x86_64-unknown-linux-gnu'

VIOLATION_KINDS = [
    ('postcondition not satisfied', 'postcondition'),
    ('unable to prove post-condition of closure', 'postcondition'),
    ('precondition not satisfied', 'precondition'),
    ('assertion failed', 'assertion'),
    ('possible arithmetic underflow/overflow', 'overflow'),
    ('possible division by zero', 'divzero'),
    ('invariant not satisfied', 'invariant'),
    ('decreases not satisfied', 'termination'),
    ('could not prove termination', 'termination'),
    ('possible out of bounds', 'bounds'),
    ('unreachable', 'unreachable'),
    ('constructed value may fail to meet its declared type invariant', 'type-invariant'),
    ('might not be allowed at this program point', 'assertion'),
]
MIN_FALLBACK_REQUESTS = 500   # an undecided obligation is accepted as bounded-only when at least this many inputs of its families were replayed

INCONCLUSIVE_PATTERNS = ['rlimit', 'Resource limit', 'timed out', 'not supported', 'unsupported', 'does not yet support',
                         'does not support', 'not yet supported', 'unimplemented', 'must have a decreases clause']


def sh(cmd, **kw):
    return subprocess.run(cmd, stdout=subprocess.PIPE, stderr=subprocess.PIPE, text=True, **kw)


def ensure_vdeps():
    r = sh([os.path.join(HERE, 'tools', 'build_vdeps.sh')], env=dict(os.environ, VERIF_REPO=REPO))
    if r.returncode != 0:
        print('INCONCLUSIVE: dependency build failed\n' + r.stdout + r.stderr)
        sys.exit(2)


def verus_cmd(debug_assertions, extra=()):
    ext = []
    for c in ('bitflags', 'log', 'thiserror', 'winnow', 'instant'):
        libs = sorted(glob.glob(os.path.join(VDEPS, 'lib%s-*.rlib' % c)))
        if not libs:
            print('INCONCLUSIVE: missing dependency rlib for %s' % c)
            sys.exit(2)
        ext += ['--extern', '%s=%s' % (c, libs[0])]
    cmd = ['verus', 'src/lib.rs', '--crate-type=lib', '--crate-name', 'lipe_find_parser', '--edition', '2021',
           '-L', 'dependency=' + VDEPS] + ext + ['--output-json', '--time', '--error-format=json',
                                                   '--multiple-errors', '8', '--num-threads', '8', '--rlimit', '30']
    if not debug_assertions:
        cmd += ['-C', 'debug-assertions=off']
    return cmd + list(extra)


def run_verus(scratch, debug_assertions, extra=()):
    cmd = verus_cmd(debug_assertions, extra)
    if '--rlimit' in list(extra):
        # drop the default limit (Verus rejects an option given twice)
        i0 = cmd.index('--rlimit')
        del cmd[i0:i0 + 2]
    t0 = time.time()
    r = sh(cmd, cwd=scratch, env=dict(os.environ, RUSTUP_TOOLCHAIN=VERUS_TOOLCHAIN))
    wall = time.time() - t0
    out = None
    try:
        out = json.loads(r.stdout[r.stdout.index('{'):]) if '{' in r.stdout else None
    except Exception:
        out = None
    diags = []
    raw = []
    for line in r.stderr.split('\n'):
        line = line.strip()
        if not line:
            continue
        try:
            j = json.loads(line)
        except Exception:
            raw.append(line)
            continue
        if j.get('$message_type') == 'diagnostic':
            diags.append(j)
    return dict(cmd=' '.join(cmd), rc=r.returncode, json=out, diags=diags, raw=raw, wall=wall,
                cfg='debug_assertions=' + ('on' if debug_assertions else 'off'))


def origin_of(meta, file_name, line):
    rel = file_name
    m = meta['srcmap'].get(rel)
    if not m:
        return None
    return m.get(str(line))


def fn_of(meta, file_name, line):
    for f in meta['fnranges'].get(file_name, []):
        if f['start'] <= line <= f['end']:
            return f
    return None


def classify(run, meta):
    """-> (failures, inconclusive) from one verus run."""
    failures, inconclusive = [], []
    for d in run['diags']:
        if d.get('level') != 'error':
            continue
        msg = d.get('message', '')
        if msg.startswith('aborting due to'):
            continue
        kind = None
        for pat, k in VIOLATION_KINDS:
            if pat in msg:
                kind = k
                break
        if d.get('code') or kind is None or any(p in msg for p in INCONCLUSIVE_PATTERNS):
            # rustc error, unsupported construct, resource limit: not a verdict
            if kind is not None and not d.get('code') and not any(p in msg for p in INCONCLUSIVE_PATTERNS):
                pass
            else:
                inconclusive.append(dict(message=msg, rendered=d.get('rendered', '')[:4000], cfg=run['cfg']))
                continue
        clause, site_fn, site_line, site_text, site_file = None, None, None, None, None
        clause_fn = None
        macros = []
        for sp in d.get('spans', []):
            # the chain of spans from the reported location outwards through macro expansions
            chain, cur = [], sp
            while cur is not None:
                chain.append(cur)
                e = cur.get('expansion')
                if e:
                    macros.append(e.get('macro_decl_name') or '')
                cur = e.get('span') if e else None
            for c in chain:
                o = origin_of(meta, c['file_name'], c['line_start'])
                if o and o.get('kind') == 'contract' and o.get('clause'):
                    if clause is None or 'failed' in (sp.get('label') or ''):
                        clause = o['clause']
                    f = fn_of(meta, c['file_name'], c['line_start'])
                    if f and clause_fn is None:
                        clause_fn = f['qual']
            # site: innermost span of real source text for the expression, first enclosing function for the name
            src_spans = [(c, origin_of(meta, c['file_name'], c['line_start'])) for c in chain]
            src_spans = [(c, o) for (c, o) in src_spans if o and o.get('kind') == 'src']
            if src_spans and (site_fn is None or sp.get('is_primary')):
                c0, o0 = src_spans[0]
                text = ' '.join(t['text'].strip() for t in c0.get('text', [])[:2])
                fn_here = None
                for (c, o) in src_spans:
                    f = fn_of(meta, c['file_name'], c['line_start'])
                    if f:
                        fn_here = f
                        site_file, site_line = o['file'], o['line']
                        break
                if fn_here is not None or site_fn is None:
                    site_fn = fn_here['qual'] if fn_here else site_fn
                    site_text = text
                    if fn_here is None:
                        site_file, site_line = o0['file'], o0['line']
        if kind == 'precondition' and any(m.rstrip('!').split('::')[-1] in ('unreachable', 'todo', 'panic', 'unimplemented',
                                                                             'unreachable_2021', 'panic_2021', 'assert')
                                          for m in macros):
            kind = 'panic'
        if site_fn is None:
            # e.g. "at the end of the function body" pointing at rewritten text (a generated helper call): the function around it
            for sp in d.get('spans', []):
                o = origin_of(meta, sp['file_name'], sp['line_start'])
                if o and o.get('kind') == 'contract':
                    continue
                f = fn_of(meta, sp['file_name'], sp['line_start'])
                if f:
                    site_fn = f['qual']
                    break
        if site_fn is None:
            site_fn = clause_fn
        if site_fn is None:
            for sp in d.get('spans', []):
                site_fn = 'spec:' + sp['file_name'].split('/')[-1] + ':' + (clause or '?')
                break
        expr = re.sub(r'\s+', ' ', site_text or '')[:120]
        if clause:
            oid = '%s|%s|%s' % (site_fn, kind, clause)
        else:
            oid = '%s|%s|%s' % (site_fn, kind, expr)
        failures.append(dict(id=oid, fn=site_fn, kind=kind, clause=clause, message=msg, cfg=run['cfg'],
                             repo_file=site_file, repo_line=site_line, expr=expr,
                             rendered=d.get('rendered', '')[:6000]))
    # a run that produced no verification summary is inconclusive
    if run['json'] is None or 'verification-results' not in (run['json'] or {}):
        inconclusive.append(dict(message='verus produced no verification summary', rendered='\n'.join(run['raw'][-30:]),
                                 cfg=run['cfg']))
    return failures, inconclusive


def assumption_scan(vdir):
    """mechanical scan of the annotated crate for everything that is assumed rather than proved"""
    items, undeclared = [], []
    pats = [('external_body', r'#\[verifier::external_body\]'), ('assume_specification', r'\bassume_specification\b'),
            ('external', r'#\[verifier::external\]'), ('external_type_specification', r'external_type_specification'),
            ('external_trait_specification', r'external_trait_specification'), ('assume', r'\bassume\s*\('), ('admit', r'\badmit\s*\(')]
    for root, _, files in os.walk(os.path.join(vdir, 'src')):
        for fn in files:
            if not fn.endswith('.rs'):
                continue
            p = os.path.join(root, fn)
            lines = open(p).read().split('\n')
            rel = os.path.relpath(p, vdir)
            in_verus = False
            for i, line in enumerate(lines):
                if line.startswith('verus! {'):
                    in_verus = True
                if not in_verus or line.strip().startswith('//'):
                    continue
                for kind, pat in pats:
                    if re.search(pat, line):
                        # what it is attached to, and the clause marker that declares it
                        what = ''
                        for j in range(i, min(i + 6, len(lines))):
                            m = re.search(r'\b(fn|struct|trait|static)\s+(\w+)|assume_specification[^\[]*\[\s*([^\]]+)\]', lines[j])
                            if m:
                                what = (m.group(2) or m.group(3) or '').strip()
                                break
                        marker = None
                        for j in range(i - 1, max(i - 8, -1), -1):
                            m = re.match(r'\s*//#\s*(\S+)', lines[j])
                            if m:
                                marker = m.group(1)
                                break
                            m = re.match(r'\s*// generated from (\S+)', lines[j])
                            if m:
                                marker = 'FMT(' + m.group(1) + ')'
                                break
                        ent = dict(kind=kind, item=what, declared_by=marker, file=rel)
                        if kind in ('assume', 'admit'):
                            undeclared.append('%s at %s:%d' % (kind, rel, i + 1))
                        items.append(ent)
    return dict(items=items, undeclared=undeclared)


def load_known():
    p = os.path.join(HERE, 'known_findings.json')
    if os.environ.get('VERIF_IGNORE_KNOWN'):  # self-test only: show what the checks say without the findings file
        return dict(findings=[], fixed=[])
    if not os.path.exists(p):
        return dict(findings=[], fixed=[])
    return json.load(open(p))


def tags_of_failure(f, meta, safety_tags):
    if not f['clause'] and f['kind'] in ('assertion', 'invariant', 'postcondition'):
        # an assertion of a proof block, a loop invariant, or the postcondition of a closure, that carries no clause marker: it serves
        # the clauses of its function
        # (Verus assumes it after the failure, so the postcondition it was there for is never reported)
        t = []
        for c in meta['clauses'].values():
            if ann.scope_of(c['where']) == f['fn']:
                t += [x for x in c['tags'] if x not in t]
        if t:
            return t
    if not f['clause'] and f['kind'] == 'precondition':
        # an unmarked precondition of a callee under contract (a representation invariant, say) fails at this call: the call is
        # assumed to satisfy it afterwards, so everything the caller's clauses state is in doubt — and it is a safety obligation too
        t = list(safety_tags)
        for c in meta['clauses'].values():
            if ann.scope_of(c['where']) == f['fn']:
                t += [x for x in c['tags'] if x not in t]
        return t
    if f['clause'] and f['clause'].startswith('ASSUME.') and f['kind'] == 'precondition':
        return list(safety_tags)   # the precondition of a std function (a panic condition) is a safety obligation of the caller
    if f['clause'] and f['clause'] in meta['clauses']:
        t = list(meta['clauses'][f['clause']]['tags'])
        if f['kind'] in ('overflow', 'bounds', 'unreachable', 'termination', 'divzero', 'panic'):
            t += [x for x in safety_tags if x not in t]
        return t
    return list(safety_tags)



# ------------------------------------------------------------------------------------------------
# property run
# ------------------------------------------------------------------------------------------------
SAFETY_PROPS = ('C03', 'C17')


def write_replay(pid, fail, extra=None):
    d = os.path.join(HERE, 'replay_out')
    os.makedirs(d, exist_ok=True)
    h = hashlib.sha1((pid + fail['id'] + fail.get('cfg', '')).encode()).hexdigest()[:10]
    p = os.path.join(d, '%s-%s.json' % (pid, h))
    body = dict(property=pid, obligation=fail['id'], function=fail.get('fn'), kind=fail.get('kind'),
                clause=fail.get('clause'), configuration=fail.get('cfg'), repo_file=fail.get('repo_file'),
                repo_line=fail.get('repo_line'), verifier_message=fail.get('message'),
                verifier_output=fail.get('rendered'), failing_input=fail.get('witness'),
                replayed=fail.get('replayed'))
    if extra:
        body.update(extra)
    json.dump(body, open(p, 'w'), indent=1)
    return p


def known_match(pid, fail, known, kani=None):
    for k in known.get('findings', []):
        if k.get('property') != pid:
            continue
        if k.get('confirm_harness'):
            # the finding is only this finding while the auxiliary harness that characterises it still holds
            st = [h for h in (kani or {}).get('harnesses', []) if h['name'] == k['confirm_harness']]
            if not st or st[0]['status'] != 'SUCCESSFUL':
                continue
        if k.get('obligation') == fail['id']:
            return k
        if k.get('obligation_prefix') and fail['id'].startswith(k['obligation_prefix']):
            return k
    return None


def run_property(pid, tier='quick', replay=None, keep=False):
    import props
    t0 = time.time()
    seed = int(os.environ.get('VERIF_SEED', '0') or 0)
    if pid not in props.PROPS:
        print('unknown or not-applicable property %s' % pid)
        return 2
    P = props.PROPS[pid]
    if replay:
        return do_replay(pid, replay)
    ensure_vdeps()
    base = os.environ.get('TMPDIR', '/var/tmp')
    scratch = tempfile.mkdtemp(prefix='fpverif.%s.' % pid, dir=base)
    rc = 2
    try:
        rc = _run(pid, P, tier, seed, scratch, t0)
    finally:
        if not keep:
            shutil.rmtree(scratch, ignore_errors=True)
        else:
            print('scratch kept at', scratch)
    return rc


def _run(pid, P, tier, seed, scratch, t0):
    import props
    contracts = sorted(glob.glob(os.path.join(HERE, 'contracts', '*.vc')))
    vdir = os.path.join(scratch, 'vcrate')
    vacdir = os.path.join(scratch, 'vcrate_vacuity')
    cfgs = [True, False]
    demote = set()
    drop = set()
    kani = None
    kani_started = False
    extra = []
    for attempt in range(8):
        try:
            meta = ann.annotate(REPO, contracts, vdir, demote=demote, drop=drop)
            vmeta = ann.annotate(REPO, contracts, vacdir, vacuity=True, demote=demote, drop=drop)
        except (ann.Lost, ann.rustlex.LexError) as e:
            print('INCONCLUSIVE property=%s reason=lost-anchor detail=%s' % (pid, e))
            return 2
        with concurrent.futures.ThreadPoolExecutor(max_workers=4) as ex:
            futs = [ex.submit(run_verus, vdir, c, extra) for c in cfgs]
            vac_fut = ex.submit(run_verus, vacdir, True, [])
            kani_fut = None
            if P.get('kani') and not kani_started:
                import kani_run
                kani_started = True
                kani_fut = ex.submit(kani_run.run_harnesses, REPO, os.path.join(scratch, 'kcrate'), P['kani'], tier)
            runs = [f.result() for f in futs]
            vac = vac_fut.result()
            if kani_fut:
                kani = kani_fut.result()
        # a construct the verifier cannot read inside one function must not take the whole crate down: find the
        # function, keep only its contract (as an assumption, reported) and verify the rest
        newly = set()
        for r in runs:
            for d in r['diags']:
                if d.get('level') != 'error' or d.get('message', '').startswith('aborting'):
                    continue
                msg = d.get('message', '')
                fatal = bool(d.get('code')) or any(p in msg for p in INCONCLUSIVE_PATTERNS) and 'rlimit' not in msg and 'Resource limit' not in msg
                if not fatal:
                    continue
                for sp in d.get('spans', []):
                    cur = sp
                    while cur is not None:
                        f = fn_of(meta, cur['file_name'], cur['line_start'])
                        o = origin_of(meta, cur['file_name'], cur['line_start'])
                        if f and f['qual'] not in demote and not f['qual'].startswith('test_'):
                            newly.add(f['qual'])
                            break
                        if f and f['qual'] in demote and f['qual'] not in drop and d.get('code') and o and o.get('kind') == 'contract':
                            # already reduced to its contract and the contract itself does not type-check: drop it too
                            drop.add(f['qual']); newly.add(f['qual'])
                            break
                        e2 = cur.get('expansion')
                        cur = e2.get('span') if e2 else None
        if not newly:
            # a resource-limit hit is not a verdict: repeat that configuration once with five times the limit
            for i_, r in enumerate(list(runs)):
                if any(('rlimit' in d.get('message', '') or 'Resource limit' in d.get('message', '')) for d in r['diags'] if d.get('level') == 'error'):
                    r2 = run_verus(vdir, cfgs[i_], ['--rlimit', '150'])
                    r2['cfg'] = r['cfg']
                    r2['retried_rlimit'] = True
                    runs[i_] = r2
            break
        demote |= newly
    if tier == 'thorough':
        # proof stability: two more Z3 seeds must give the same verdicts
        for sd in (1, 2):
            runs.append(run_verus(vdir, True, ['--smt-option', 'smt.random_seed=%d' % (seed + sd)]))
            runs[-1]['cfg'] += ',seed=%d' % (seed + sd)

    failures, inconclusive = [], []
    undecided_fns = {}
    for q in sorted(demote):
        undecided_fns[q] = 'contains a construct the verifier cannot read; only its contract was kept, as an assumption'
    for q in meta['notes'].get('lost_fns', []):
        undecided_fns[q] = 'function not found (renamed beyond recognition or removed)'
    lost_local = meta['notes'].get('lost', {})
    calls_unc = meta['notes'].get('calls_uncontracted', {})
    for msg in meta['notes'].get('lost_optional', []):
        print('NOTE property=%s optional proof-hint anchor not found (the code changed shape); verifying without it: %s' % (pid, msg))
    for r in runs:
        f, i = classify(r, meta)
        failures += f
        inconclusive += i
    known = load_known()
    # a failing proof inside a function whose hints were lost, or which calls a new function without a contract, is
    # undecided (exit 2), not a violation
    kept = []
    for f in failures:
        why = None
        if f.get('clause') in ('ASSUME.string_truncate',):
            why = 'the precondition of this std function (a UTF-8 boundary) cannot be decided from the character view of strings'
        elif f['fn'] in lost_local:
            why = 'a proof hint / normalisation of this function was lost: ' + lost_local[f['fn']][0][:160]
        elif f['fn'] in calls_unc:
            dropped_ = set(meta['notes'].get('dropped', []))
            why = 'calls %s, which %s' % (', '.join(calls_unc[f['fn']]), 'has a changed signature its contract no longer type-checks against (the contract was dropped)'
                                         if set(calls_unc[f['fn']]) & dropped_ else 'is new and has no contract')
        if why:
            f['undecided'] = why
        kept.append(f)
    failures = kept

    # ---- obligations of this property
    clauses = [c for c in meta['clauses'].values() if pid in c['tags']]
    if pid == 'C17':
        # "debug and release agree": every functional clause must be discharged under both settings
        clauses = [c for c in meta['clauses'].values() if not c['id'].startswith('ASSUME.') and not c['id'].startswith('KANI.')]
    under = sorted(set(meta['notes']['under_contract']))
    ext_body = sorted(set(meta['notes']['external_body']))
    verified_fns = []
    for rel, frs in meta['fnranges'].items():
        if rel not in meta['notes']['wrapped']:
            continue
        for f in frs:
            if f['qual'] not in ext_body and not f['qual'].startswith('test_') and f.get('in_wrap', True) and f.get('has_body', True):
                verified_fns.append(f['qual'])
    ncfg = len(runs)
    obligations = []
    for r in runs:
        for c in clauses:
            obligations.append(dict(id='%s' % c['id'], cfg=r['cfg'], where=c['where'], text=' '.join(c['text'])[:300],
                                    backend='verus/z3'))
        if pid == 'C15' and r is runs[0]:
            # no hidden state: an exec function the verifier reads is a function of its arguments and of the results of its callees;
            # statics, thread-locals, interior mutability and I/O are constructs it rejects, and the only callees outside it are the
            # declared ASSUME.* / KANI.* items (clock, HashMap plumbing). A function it could not read this run may consult anything.
            for q in verified_fns:
                obligations.append(dict(id='PURE.%s' % q, cfg=r['cfg'], where=q,
                                        text='the body is read by the verifier (no static, thread-local, interior mutability or I/O) and calls only '
                                             'functions under contract or declared externals', backend='verus/z3'))
        if pid in SAFETY_PROPS:
            for q in verified_fns:
                obligations.append(dict(id='SAFETY.%s' % q, cfg=r['cfg'], where=q,
                                        text='no panic (unwrap/unreachable!/todo!/index), no arithmetic overflow, '
                                             'callee preconditions hold, recursion terminates', backend='verus/z3'))
    kani_obl = []
    if kani:
        for h in kani['harnesses']:
            if pid in h['tags'] and not h.get('aux'):
                kani_obl.append(h)
                obligations.append(dict(id='KANI.%s' % h['name'], cfg='cbmc', where=h['fragment'],
                                        text=h['claim'], backend='kani/cbmc',
                                        bounded=h.get('bounded', False)))
        inconclusive += [i for i in kani['inconclusive']]

    # ---- bounded stand-ins for functions outside the verifier's reach (labelled bounded, never counted as proved)
    bounded_fail = []
    try:
        import witness
        witness.TIER = tier
        for name, claim, bf in witness.bounded_standins(pid, REPO, scratch):
            obligations.append(dict(id=name, cfg='replay', where=bf['fn'], text=claim, backend='bounded replay through the public API', bounded=True,
                                    tried=(bf.get('witness_search') or {}).get('requests')))
            if bf.get('replayed'):
                bounded_fail.append(bf)
    except Exception as ex_:
        inconclusive.append(dict(message='bounded stand-in could not run: %s' % ex_, rendered='', cfg='replay'))

    # ---- failures relevant to this property
    rel_fail = []
    by_cfg = {}
    for f in failures:
        by_cfg.setdefault(f['id'], set()).add(f['cfg'])
    for f in failures:
        tags = tags_of_failure(f, meta, SAFETY_PROPS)
        base_cfgs = set(r['cfg'] for r in runs[:2])
        if pid == 'C17' and f['cfg'] in base_cfgs and (by_cfg[f['id']] & base_cfgs) != base_cfgs:
            # discharged under one debug_assertions setting and not under the other: the two builds differ
            tags = tags + ['C17']
        if pid in tags:
            if f.get('undecided'):
                # undecided by the verifier — but if a concrete input that exercises this clause fails on the real
                # code, it is a violation after all (the input is the evidence)
                if f.get('witness') is None and not f.get('searched'):
                    f['searched'] = True
                    if not f.get('clause'):
                        # an unmarked assertion / loop invariant: search with the families of the clause of its function it serves
                        for c_ in meta['clauses'].values():
                            if ann.scope_of(c_['where']) == f['fn'] and pid in c_['tags']:
                                f['clause_for_witness'] = c_['id']
                                break
                    try:
                        import witness
                        witness.find(pid, f, REPO, scratch)
                    except Exception as ex_:
                        f['witness_error'] = str(ex_)
                if f.get('replayed'):
                    rel_fail.append(f)
                else:
                    inconclusive.append(dict(message='UNDECIDED %s: %s' % (f['id'], f['undecided']), rendered='', cfg=f['cfg'], undecided=True,
                                             searched=((f.get('witness_search') or {}).get('requests') or 0), clause=f.get('clause'), fn=f.get('fn'), kind=f.get('kind')))
            else:
                rel_fail.append(f)
    # clauses of this property that sit in a function that could not be verified this run
    for c in clauses:
        q = ann.scope_of(c['where'])
        if q in undecided_fns:
            # the verifier cannot decide this clause this run; a concrete failing input still settles it
            pf = dict(id='%s|undecided|%s' % (q, c['id']), fn=q, kind='undecided', clause=c['id'], cfg=runs[0]['cfg'],
                      message='clause %s could not be decided (%s) and a concrete input violates it' % (c['id'], undecided_fns[q]),
                      rendered='', repo_file=None, repo_line=None, expr='')
            try:
                import witness
                witness.find(pid, pf, REPO, scratch)
            except Exception as ex_:
                pf['witness_error'] = str(ex_)
            if pf.get('replayed'):
                rel_fail.append(pf)
            else:
                inconclusive.append(dict(message='UNDECIDED clause %s: `%s` %s' % (c['id'], q, undecided_fns[q]), rendered='', cfg='', undecided=True,
                                         searched=((pf.get('witness_search') or {}).get('requests') or 0), clause=c['id'], fn=q, kind='clause'))
    if pid == 'C15' and undecided_fns:
        pf = dict(id='%s|undecided|PURE' % '+'.join(sorted(undecided_fns)), fn=sorted(undecided_fns)[0], kind='undecided', clause='C15.undecided',
                  cfg=runs[0]['cfg'], message='%s could not be read by the verifier (%s): whether it consults hidden state is undecided — and a concrete sequence of '
                  'compilations gives different answers for the same input' % (', '.join('`%s`' % q for q in sorted(undecided_fns)), list(undecided_fns.values())[0]),
                  rendered='', repo_file=None, repo_line=None, expr='')
        try:
            import witness
            witness.find(pid, pf, REPO, scratch)
        except Exception as ex_:
            pf['witness_error'] = str(ex_)
        if pf.get('replayed'):
            rel_fail.append(pf)
        else:
            for q in undecided_fns:
                inconclusive.append(dict(message='UNDECIDED purity of `%s`: %s' % (q, undecided_fns[q]), rendered='', cfg='', undecided=True,
                                         searched=((pf.get('witness_search') or {}).get('requests') or 0), clause=None, fn=q, kind='purity'))
    if pid in SAFETY_PROPS and undecided_fns:
        # panic freedom of a function the verifier could not read this run: a concrete input that panics still settles it
        pf = dict(id='%s|undecided|SAFETY' % '+'.join(sorted(undecided_fns)), fn=sorted(undecided_fns)[0], kind='undecided', clause='SAFETY.undecided',
                  cfg=runs[0]['cfg'], message='panic freedom of %s could not be decided (%s) and a concrete input panics'
                  % (', '.join('`%s`' % q for q in sorted(undecided_fns)), list(undecided_fns.values())[0]), rendered='', repo_file=None, repo_line=None, expr='')
        try:
            import witness
            witness.find(pid, pf, REPO, scratch)
        except Exception as ex_:
            pf['witness_error'] = str(ex_)
        if pf.get('replayed'):
            rel_fail.append(pf)
        else:
            for q in undecided_fns:
                inconclusive.append(dict(message='UNDECIDED safety of `%s`: %s' % (q, undecided_fns[q]), rendered='', cfg='', undecided=True,
                                         searched=((pf.get('witness_search') or {}).get('requests') or 0), clause=None, fn=q, kind='safety'))
    if kani:
        for h in kani_obl:
            if h['status'] == 'FAILED':
                rel_fail.append(dict(id='KANI.%s' % h['name'], fn=h['fragment'], kind='kani', clause=None,
                                     message=h['claim'], cfg='cbmc', rendered=h.get('output', '')[-6000:],
                                     witness=h.get('witness'), replayed=h.get('replayed'),
                                     repo_file=h.get('repo_file'), repo_line=h.get('repo_line'), expr=''))

    rel_fail += bounded_fail
    # a Kani fragment whose anchor was lost (the code around it changed shape) leaves its obligations undecided, like a function Verus
    # cannot read: what backs them this run is the property's bounded stand-in(s), which ran above on the real code
    standin_requests = sum((o.get('tried') or 0) for o in obligations if o.get('bounded') and o['id'].startswith('BOUNDED.'))
    for i_ in inconclusive:
        if i_.get('message', '').startswith('kani: lost-anchor') and not bounded_fail:
            i_['undecided'] = True
            i_['searched'] = standin_requests
            i_['kind'] = 'kani-anchor'
            i_['message'] = 'UNDECIDED (Kani fragment not found: %s)' % i_['message'][len('kani: lost-anchor: '):][:160]

    # vacuity: every probe must have failed
    vac_failed = set()
    for d in vac['diags']:
        if d.get('level') == 'error' and 'assertion failed' in d.get('message', ''):
            for sp in d.get('spans', []):
                o = origin_of(vmeta, sp['file_name'], sp['line_start'])
                if o and o.get('kind') == 'vacuity':
                    vac_failed.add(o['fn'])
    probes = vmeta['notes'].get('vacuity_probes', [])
    vacuous = [q for q in probes if q not in vac_failed]
    if vac['json'] is None:
        inconclusive.append(dict(message='vacuity pass did not run', rendered='\n'.join(vac['raw'][-20:]), cfg='vacuity'))
    for q in vacuous:
        inconclusive.append(dict(message='VACUOUS: assert(false) is provable at the start of `%s` — its preconditions or the axioms in scope are contradictory' % q,
                                 rendered='', cfg='vacuity'))
    scan = assumption_scan(vdir)
    for bad in scan['undeclared']:
        inconclusive.append(dict(message='assumption scan: undeclared trusted item: %s' % bad, rendered='', cfg='scan'))

    # vacuity: the annotated crate must really have been verified
    summary = []
    for r in runs:
        vr = (r['json'] or {}).get('verification-results', {})
        summary.append(dict(cfg=r['cfg'], verified=vr.get('verified'), errors=vr.get('errors'), wall_s=round(r['wall'], 2),
                            smt_ms=((r['json'] or {}).get('times-ms', {}).get('smt', {}) or {}).get('total')))
    if not obligations:
        inconclusive.append(dict(message='no obligations generated for %s' % pid, rendered='', cfg=''))
    for r in runs:
        vr = (r['json'] or {}).get('verification-results', {})
        if vr and (vr.get('verified', 0) + vr.get('errors', 0)) < len(verified_fns):
            inconclusive.append(dict(message='verus checked fewer functions (%s) than are under contract (%d)'
                                     % (vr.get('verified'), len(verified_fns)), rendered='', cfg=r['cfg']))

    # ---- verdicts
    violations, known_hits = [], []
    seen = set()
    failed_ids = set()
    for f in rel_fail:
        failed_ids.add((f['id'].split('|')[-1] if f['clause'] else f['id'], f['cfg']))
        key = f['id']
        if key in seen:
            continue
        seen.add(key)
        k = known_match(pid, f, known, kani)
        if k:
            known_hits.append((k, f))
        else:
            violations.append(f)

    # the verifier could not run on this tree at all (e.g. the contracts no longer type-check against a changed
    # representation): nothing is decided — but a concrete input that violates one of the property's clauses is still a violation
    verifier_ran = all((((r['json'] or {}).get('verification-results') or {}).get('verified') or 0) + (((r['json'] or {}).get('verification-results') or {}).get('errors') or 0) > 0
                       for r in runs[:2])
    if os.environ.get('VERIF_DEBUG'):
        print('DEBUG verifier_ran=%s violations=%d clauses=%d' % (verifier_ran, len(violations), len(clauses)))
    if not verifier_ran and not violations:
        try:
            import witness
            tried = set()
            for c in clauses:
                fam_key = c['id']
                gens = witness.generators_for(fam_key)
                ident = tuple(id(g) for g in gens) if gens else (fam_key if fam_key in witness.CANNED else None)
                if ident is None or ident in tried:
                    continue
                tried.add(ident)
                pf = dict(id='(verifier could not run)|unverifiable|%s' % c['id'], fn=ann.scope_of(c['where']), kind='unverifiable', clause=c['id'], cfg='replay',
                          message='the verifier could not run on this tree; a concrete input violates clause %s' % c['id'],
                          rendered='\n'.join(i['message'] for i in inconclusive[:3]), repo_file=None, repo_line=None, expr='')
                witness.find(pid, pf, REPO, scratch)
                if os.environ.get('VERIF_DEBUG'):
                    print('DEBUG fallback', fam_key, pf.get('witness_search'), pf.get('replayed'))
                if pf.get('replayed'):
                    violations.append(pf)
                    break
        except Exception as ex_:
            inconclusive.append(dict(message='fallback witness search failed: %s' % ex_, rendered='', cfg='replay'))

    selftest = None
    if tier == 'thorough' and not os.environ.get('VERIF_NO_SELFTEST') and not violations:
        selftest = self_test(pid, scratch)
        for s in selftest:
            if not s['ok']:
                inconclusive.append(dict(message='SELF-TEST failed: %s expected %s, got %s — the check is broken, its verdict is not to be believed'
                                         % (s['case'], s['expect'], s['outcome']), rendered='', cfg='selftest'))

    for k, f in known_hits:
        print('KNOWN-FINDING: property=%s %s [obligation %s]' % (pid, k.get('what', ''), f['id']))
    out_lines = []
    for f in violations:
        if f.get('witness') is None:
            try:
                import witness
                witness.find(pid, f, REPO, scratch)
            except Exception as e:  # witness search is best effort
                f['witness_error'] = str(e)
        path = write_replay(pid, f)
        tail = '' if f.get('replayed') else ' no-failing-input-found'
        print('  obligation: %s [%s]' % (f['id'], f['cfg']))
        print('  %s' % f['message'])
        if f.get('repo_file'):
            print('  at %s:%s  %s' % (f['repo_file'], f['repo_line'], f.get('expr', '')))
        if f.get('witness'):
            print('  failing input: %s' % json.dumps(f['witness']))
        print('VIOLATION property=%s replay=%s%s' % (pid, path, tail))

    if not violations and [i for i in inconclusive if not i.get('undecided') or (i.get('searched') or 0) < MIN_FALLBACK_REQUESTS]:
        for i in inconclusive[:10]:
            print('INCONCLUSIVE property=%s reason=%s' % (pid, i['message'][:300]))
            if i.get('rendered'):
                print(i['rendered'][:1500])

    # ---- evidence
    n_obl = len(obligations)
    failed_obl = 0
    fail_by = {}
    for f in rel_fail:
        fail_by.setdefault(f['cfg'], []).append(f)
    discharged_list = []
    undecided_obl = []
    known_obl = 0
    for o in obligations:
        bad = None
        for f in fail_by.get(o['cfg'], []):
            if o['id'].startswith('PURE.'):
                if f.get('clause') == 'C15.undecided' and o['where'] in f['id']:
                    bad = f
            elif o['id'].startswith('SAFETY.'):
                if f['fn'] == o['where'] and (not f['clause'] or f['kind'] in ('overflow', 'bounds', 'unreachable',
                                                                                'termination', 'divzero', 'precondition', 'panic')):
                    bad = f
            elif o['id'].startswith('KANI.') or o['id'].startswith('BOUNDED.'):
                if f['id'] == o['id']:
                    bad = f
            elif f['clause'] == o['id']:
                bad = f
        und = None
        for i_ in inconclusive:
            if not i_.get('undecided'):
                continue
            if o['id'].startswith('PURE.'):
                if i_.get('kind') == 'purity' and i_.get('fn') == o['where']:
                    und = i_
            elif o['id'].startswith('SAFETY.'):
                if i_.get('fn') == o['where'] and (i_.get('kind') in ('safety', 'overflow', 'bounds', 'unreachable', 'termination', 'divzero', 'precondition', 'panic')
                                                  or (i_.get('kind') == 'undecided' and not i_.get('clause'))):
                    und = i_
            elif i_.get('clause') and i_.get('clause') == o['id']:
                und = i_
        if bad is None and und is not None:
            undecided_obl.append((o, und))
        elif bad is None:
            discharged_list.append(o)
        elif known_match(pid, bad, known, kani):
            known_obl += 1
        else:
            failed_obl += 1
    wall = time.time() - t0
    samples = [dict(obligation=o['id'], configuration=o['cfg'], function=o['where'], clause=o['text'], backend=o['backend'])
               for o in (obligations[:6] + obligations[-3:])]
    level = P['level']
    ev = dict(
        property_id=pid, tier=tier, seed=seed, level=level,
        coverage=dict(
            # bounded stand-ins are listed separately below and are NOT counted among the proof obligations
            obligations=n_obl - known_obl - len([o for o in obligations if o.get('bounded')]),
            discharged=len([o for o in discharged_list if not o.get('bounded')]),
            bounded_checks=[dict(id=o['id'], claim=o['text'], function=o['where'], backend=o['backend'], requests=o.get('tried'),
                                 passed=(o in discharged_list)) for o in obligations if o.get('bounded')],
            undischarged_known_findings=known_obl,
            undischarged_violations=failed_obl,
            # obligations the verifier could not decide this run (a function fell out of its reach): NOT counted as discharged; each is backed
            # only by the bounded search named here (inputs of the witness families of its clause, replayed on the real code, none failing)
            undecided_bounded_only=[dict(obligation=o['id'], configuration=o['cfg'], function=o['where'], reason=u['message'][:300], requests=u.get('searched') or 0)
                                    for (o, u) in undecided_obl],
            checker_cmd=runs[0]['cmd'] + (' ; and the same with -C debug-assertions=off' if len(runs) > 1 else '') +
            (' ; ' + kani['cmd'] if kani else ''),
            trusted_base=props.TRUSTED_BASE + P.get('trusted', []),
            functions_under_contract=under,
            functions_verified_for_safety=verified_fns if pid in SAFETY_PROPS else None,
            external_body_assumed=ext_body,
            assumption_scan=scan['items'],
            self_test=selftest,
            vacuity=dict(probes=len(probes), failed_as_required=len(probes) - len(vacuous), rule='assert(false) inserted at the start of every function under contract must be refuted'),
            normalisations=meta['notes']['normalisations'],
            backends=dict(verus=summary, kani=(kani['summary'] if kani else None)),
            solver_time_ms=sum((s.get('smt_ms') or 0) for s in summary),
            samples=samples,
            bounded_standins=[o['id'] for o in obligations if o.get('bounded')],
            scope=P['scope'],
            not_decided=P.get('not_decided', []),
            explanation=P['scope'],
        ),
        assumptions=props.TRUSTED_BASE + P.get('trusted', []) + ['external_body (assumed contract): ' + q for q in ext_body],
        wall_s=round(wall, 2),
        violations=len(violations),
    )
    evdir = os.environ.get('VERIF_EVIDENCE_DIR') or os.path.join(HERE, 'evidence')  # seed runs write elsewhere
    os.makedirs(evdir, exist_ok=True)
    json.dump(ev, open(os.path.join(evdir, '%s.json' % pid), 'w'), indent=1)

    if violations:
        return 1
    # what the verifier left undecided because a function fell out of its reach is backed by a bounded search on the real code when the
    # families of its clause hold enough inputs (labelled bounded, never counted as proved); anything else undecided is exit 2
    hard = [i for i in inconclusive if not i.get('undecided') or (i.get('searched') or 0) < MIN_FALLBACK_REQUESTS]
    if hard:
        return 2
    if inconclusive:
        # accepting an undecided obligation as bounded-only further requires that the current tree still answers the recorded corpus
        # exactly as the last fully verified tree did (golden/corpus.json): a function the verifier cannot read AND a behaviour that moved
        # is nothing this check will call "held"
        same, detail = golden_agrees(scratch)
        if not same:
            print('INCONCLUSIVE property=%s reason=%d obligation(s) undecided by the verifier this run, and %s' % (pid, len(inconclusive), detail))
            for i_ in inconclusive[:6]:
                print('  ' + i_['message'][:260])
            return 2
    nb = len([o for o in obligations if o.get('bounded')])
    for i_ in inconclusive:
        print('BOUNDED-ONLY property=%s %s — not proved this run; %d inputs of its witness families replayed on the real code, none fails, and the '
              'recorded corpus is answered as by the last fully verified tree' % (pid, i_['message'][:260], i_.get('searched') or 0))
    print('OK property=%s obligations=%d discharged=%d undecided_bounded_only=%d bounded_standins=%d known_findings=%d wall=%.1fs' %
          (pid, n_obl - known_obl - nb, len([o for o in discharged_list if not o.get('bounded')]), len(undecided_obl), nb, known_obl, wall))
    return 0


def golden_agrees(scratch):
    """does the current tree answer the recorded corpus as the last fully verified tree did? (tools/gen_golden.py)"""
    p = os.path.join(HERE, 'golden', 'corpus.json')
    if not os.path.exists(p):
        return False, 'no recorded corpus (golden/corpus.json) to compare the behaviour with'
    try:
        import gen_golden
        want = json.load(open(p))
        got = gen_golden.digests(REPO, scratch)
    except Exception as ex_:
        return False, 'the recorded corpus could not be replayed: %s' % ex_
    if got is None:
        return False, 'the recorded corpus could not be replayed'
    if got['requests'] != want['requests']:
        return False, 'the recorded corpus has %d requests, the current families give %d (regenerate golden/corpus.json on a fully verified tree)' % (want['requests'], got['requests'])
    diff = [k for k, (a, b) in enumerate(zip(got['digests'], want['digests'])) if a != b]
    if diff:
        return False, ('the tree answers %d of the %d chunks of the recorded corpus (%d requests) differently from the last fully verified tree'
                       % (len(diff), len(want['digests']), want['requests']))
    return True, 'all %d recorded requests answered as by the last fully verified tree' % want['requests']


def self_test(pid, scratch):
    """thorough tier: the check must still catch the seeded changes recorded as caught for this property, and must not
    raise an alarm on the behaviour-preserving refactorings — each applied to a scratch copy of the working tree"""
    results = []
    cases = []
    for d in sorted(glob.glob(os.path.join(HERE, 'seeded', '*'))):
        try:
            meta = json.load(open(os.path.join(d, 'meta.json')))
        except Exception:
            continue
        if meta.get('property') == pid and meta.get('outcome') == 'VIOLATION':
            cases.append((os.path.basename(d), os.path.join(d, 'patch.diff'), 'violation'))
    for p in sorted(glob.glob(os.path.join(HERE, 'harmless', 'h*.diff'))):
        cases.append((os.path.basename(p), p, 'no-alarm'))
    # the oracles of the witness families must not flag the unchanged tree
    try:
        import witness
        flagged, tried = [], 0
        gens = {}
        for key in list(witness.GENERATED) + list(witness.RULE_SAMPLE_KEYS):
            for g in witness.generators_for(key):
                gens.setdefault(g.__name__, g)
        todo = [(key, None) for key in witness.CANNED] + [('SELFTEST.' + nm, g) for nm, g in sorted(gens.items())]
        for key, g in todo:
            if g is not None:
                witness.GENERATED[key] = g
            pf = dict(id='selftest', clause=key, kind='selftest')
            try:
                witness.find(pid, pf, REPO, scratch)
            finally:
                if g is not None:
                    witness.GENERATED.pop(key, None)
            tried += (pf.get('witness_search') or {}).get('requests', 0)
            if pf.get('replayed'):
                flagged.append((key, pf['witness']['public_api_input']))
        results.append(dict(case='witness-family oracles on the unchanged tree', expect='no input flagged', outcome='%d requests, %d flagged %s' % (tried, len(flagged), flagged[:3]),
                            ok=not flagged))
    except Exception as ex_:
        results.append(dict(case='witness-family oracles on the unchanged tree', expect='no input flagged', outcome='error: %s' % ex_, ok=False))
    same, detail = golden_agrees(scratch)
    results.append(dict(case='recorded corpus (golden/corpus.json) on the unchanged tree', expect='answered as recorded', outcome=detail, ok=same))
    def one_case(case):
        name, patch, expect = case
        work = os.path.join(scratch, 'selftest_' + re.sub(r'\W', '_', name))
        os.makedirs(work)
        shutil.copytree(os.path.join(REPO, 'src'), os.path.join(work, 'src'))
        for f in ('Cargo.toml', 'Cargo.lock'):
            shutil.copy(os.path.join(REPO, f), os.path.join(work, f))
        a = sh(['git', 'apply', '--unsafe-paths', '--directory=' + work, patch], cwd='/')
        if a.returncode != 0:
            a = sh(['patch', '-p1', '-s', '-i', patch], cwd=work)
        if a.returncode != 0:
            return dict(case=name, expect=expect, outcome='patch does not apply (skipped)', ok=True)
        r = sh([os.path.join(HERE, 'check'), pid, '--tier', 'quick'], cwd=HERE,
               env=dict(os.environ, VERIF_REPO=work, VERIF_EVIDENCE_DIR=os.path.join(work, 'selftest_evidence'),
                        VERIF_NO_SELFTEST='1', VERIF_TIER='quick'))
        ok = (r.returncode == 1) if expect == 'violation' else (r.returncode != 1)
        shutil.rmtree(work, ignore_errors=True)
        return dict(case=name, expect=expect, outcome='exit %d' % r.returncode, ok=ok)
    with concurrent.futures.ThreadPoolExecutor(max_workers=3) as ex:
        results += list(ex.map(one_case, cases))
    return results


def do_replay(pid, path):
    d = json.load(open(path))
    print(json.dumps({k: d.get(k) for k in ('property', 'obligation', 'configuration', 'repo_file', 'repo_line',
                                             'verifier_message', 'failing_input', 'replayed')}, indent=1))
    print(d.get('verifier_output') or '')
    if d.get('failing_input'):
        import witness
        return witness.replay(d, REPO)
    return 0


def main():
    ap = argparse.ArgumentParser()
    ap.add_argument('property')
    ap.add_argument('--tier', default=os.environ.get('VERIF_TIER', 'quick') or 'quick')
    ap.add_argument('--replay')
    ap.add_argument('--keep', action='store_true')
    a = ap.parse_args()
    sys.exit(run_property(a.property, a.tier, a.replay, a.keep))


if __name__ == '__main__':
    main()
