#!/bin/bash
# seed_validate.sh <seed-name> <dir with patch.diff seed_demo.rs notes.md> <property> 
# Confirms a seeded change in a scratch worktree: applies, 45 tests pass, demo fails with it and passes without.
# On success stores it under /verif/seeded/<seed-name>/ .
set -u
NAME="$1"; SRC="$2"; PROP="$3"
WT=/tmp/wt-validate-$NAME
export CARGO_NET_OFFLINE=true
git -C /repo worktree remove --force "$WT" 2>/dev/null
git -C /repo worktree add -q --detach "$WT" HEAD || exit 2
cd "$WT" || exit 2
if ! git apply "$SRC/patch.diff"; then echo "PATCH DOES NOT APPLY"; git -C /repo worktree remove --force "$WT"; exit 1; fi
T1=$(cargo test --offline --lib 2>&1 | grep -E "^test result" | head -1)
echo "with change, unit tests: $T1"
mkdir -p tests; cp "$SRC/seed_demo.rs" tests/seed_demo.rs
D1=$(cargo test --offline --test seed_demo 2>&1 | grep -E "^test result" | head -1)
echo "with change, demo: $D1"
git apply -R "$SRC/patch.diff"
D0=$(cargo test --offline --test seed_demo 2>&1 | grep -E "^test result" | head -1)
echo "without change, demo: $D0"
cd /; git -C /repo worktree remove --force "$WT"
ok=1
echo "$T1" | grep -q "45 passed; 0 failed" || ok=0
echo "$D1" | grep -q "FAILED" || ok=0
echo "$D0" | grep -q "ok\." || ok=0
if [ $ok = 1 ]; then
  mkdir -p /verif/seeded/$NAME; cp "$SRC/patch.diff" "$SRC/seed_demo.rs" /verif/seeded/$NAME/; cp "$SRC/notes.md" /verif/seeded/$NAME/notes.md 2>/dev/null
  python3 - "$NAME" "$PROP" "$T1" "$D1" "$D0" <<'PY'
import json,sys
name,prop,t1,d1,d0=sys.argv[1:6]
json.dump(dict(seed=name, property=prop, confirmed=dict(unit_tests_with_change=t1, demo_with_change=d1, demo_without_change=d0),
  ran=["git worktree add (scratch) ; git apply patch.diff ; cargo test --offline --lib ; cargo test --offline --test seed_demo ; git apply -R ; cargo test --offline --test seed_demo"],
  needs_to_manifest="see notes.md", detected_by=None), open('/verif/seeded/%s/meta.json'%name,'w'), indent=1)
PY
  echo CONFIRMED
else echo NOT-CONFIRMED; exit 1; fi
