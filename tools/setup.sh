#!/bin/bash
# MANIFEST.setup_cmd — offline; builds /repo's dependency rlibs with Verus's toolchain.
set -e
HERE="$(cd "$(dirname "$0")/.." && pwd)"
export PATH="$HOME/.cargo/bin:/usr/local/bin:$PATH"
"$HERE/tools/build_vdeps.sh"
echo setup ok
