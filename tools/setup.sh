#!/bin/bash
# MANIFEST.setup_cmd — offline; builds /repo's dependency rlibs with Verus's toolchain and warms the replay crate's
# dependency cache (both under /verif/.cache, both rebuilt on demand by the checks if missing).
set -e
HERE="$(cd "$(dirname "$0")/.." && pwd)"
export PATH="$HOME/.cargo/bin:/usr/local/bin:$PATH"
"$HERE/tools/build_vdeps.sh"
python3 - <<PY || true
import sys, tempfile, shutil
sys.path.insert(0, "$HERE/tools")
import witness
sc = tempfile.mkdtemp(prefix='fpsetup.', dir='/var/tmp')
try:
    print('replay crate:', 'built' if witness.build_replayer('${VERIF_REPO:-/repo}', sc) else 'NOT built (will be retried by the checks)')
    print('replay crate (release):', 'built' if witness.build_replayer('${VERIF_REPO:-/repo}', sc, release=True) else 'NOT built (will be retried by the checks)')
finally:
    shutil.rmtree(sc, ignore_errors=True)
PY
echo setup ok
