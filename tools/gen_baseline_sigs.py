#!/usr/bin/env python3
"""Record the signatures (parameter types, return type) of every function of the files under contract, from the
current /repo tree.  Used only to re-find a function whose *name* changed (annotate.FileJob.fn): a contract is then
attached to the unique function of the same impl block with the same signature, with parameter names mapped by position."""
import json, os, sys, glob
HERE = os.path.dirname(os.path.dirname(os.path.abspath(__file__)))
sys.path.insert(0, os.path.join(HERE, 'tools'))
import annotate
repo = os.environ.get('VERIF_REPO', '/repo')
out = {}
files = set()
for d in annotate.parse_contracts(sorted(glob.glob(os.path.join(HERE, 'contracts', '*.vc')))):
    if d['head'].startswith('file '):
        files.add(d['head'].split()[1])
for rel in sorted(files):
    job = annotate.FileJob(rel, open(os.path.join(repo, rel)).read())
    out[rel] = {}
    for f in job.fns:
        params, ret = job.sig_of(f)
        out[rel][f.qual] = dict(params=params, ret=ret)
json.dump(out, open(os.path.join(HERE, 'contracts', 'baseline_sigs.json'), 'w'), indent=1)
print('signatures of %d functions recorded' % sum(len(v) for v in out.values()))
