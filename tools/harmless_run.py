#!/usr/bin/env python3
"""Apply each behaviour-preserving refactoring in /verif/harmless*/h*.diff to a scratch copy of /repo's working tree and run
every claimed check on it.  Expected: exit 0, or exit 2 where an anchor is lost — never exit 1 (VIOLATION)."""
import concurrent.futures, glob, json, os, shutil, subprocess, sys, tempfile
HERE = os.path.dirname(os.path.dirname(os.path.abspath(__file__)))
REPO = os.environ.get('VERIF_REPO', '/repo')
PIDS = [c['property_id'] for c in json.load(open(os.path.join(HERE, 'MANIFEST.json')))['checks']]


def one(p):
    name = os.path.relpath(p, HERE)
    work = tempfile.mkdtemp(prefix='harmless.', dir=os.environ.get('TMPDIR', '/var/tmp'))
    try:
        shutil.copytree(os.path.join(REPO, 'src'), os.path.join(work, 'src'))
        for f in ('Cargo.toml', 'Cargo.lock'):
            shutil.copy(os.path.join(REPO, f), os.path.join(work, f))
        a = subprocess.run(['patch', '-p1', '-s', '--no-backup-if-mismatch', '-i', p], cwd=work, stdout=subprocess.PIPE, stderr=subprocess.STDOUT, text=True)
        if a.returncode != 0:
            return '== %s : does not apply' % name
        res, detail = [], []
        for pid in PIDS:
            r = subprocess.run([os.path.join(HERE, 'check'), pid], cwd=HERE, stdout=subprocess.PIPE, stderr=subprocess.STDOUT, text=True,
                               env=dict(os.environ, VERIF_REPO=work, VERIF_EVIDENCE_DIR=os.path.join(work, 'evidence'), VERIF_NO_SELFTEST='1'))
            res.append('%s:%d' % (pid, r.returncode))
            if r.returncode == 1:
                detail += [l[:200] for l in r.stdout.split('\n') if l.startswith('VIOLATION') or l.startswith('  obligation')][:4]
        return '== %s : %s%s' % (name, ' '.join(res), ''.join('\n   ' + x for x in detail))
    finally:
        shutil.rmtree(work, ignore_errors=True)


pats = sys.argv[1:] or sorted(glob.glob(os.path.join(HERE, 'harmless*', 'h*.diff')))
with concurrent.futures.ThreadPoolExecutor(max_workers=3) as ex:
    for line in ex.map(one, pats):
        print(line, flush=True)
