#!/bin/bash
# seed_run.sh <seed-name> <property...> : apply /verif/seeded/<name>/patch.diff to /repo, run the checks, undo.
NAME="$1"; shift
cd /repo && git diff --quiet || { echo "/repo dirty"; exit 2; }
git -C /repo apply /verif/seeded/$NAME/patch.diff || exit 2
for p in "$@"; do
  out=$(cd /verif && VERIF_EVIDENCE_DIR=/tmp/seed-evidence ./check $p 2>&1 | grep -v WARNING); rc=$?
  echo "== $NAME / $p : $(echo "$out" | grep -E '^(VIOLATION|OK|INCONCLUSIVE)' | head -3 | tr '\n' ' ')"
  echo "$out" | grep -E "obligation:" | head -4
done
git -C /repo checkout -- . 
