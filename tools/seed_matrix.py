#!/usr/bin/env python3
"""Apply every seeded change in /verif/seeded to /repo (git apply), run the check of its property, undo, and record the outcome
in seeded/<name>/meta.json (detected_by / outcome).  Prints a markdown table."""
import glob, json, os, re, subprocess, sys
HERE = os.path.dirname(os.path.dirname(os.path.abspath(__file__)))
rows = []
assert subprocess.run(['git', '-C', '/repo', 'diff', '--quiet']).returncode == 0, '/repo dirty'
for d in sorted(glob.glob(os.path.join(HERE, 'seeded', '*'))):
    name = os.path.basename(d)
    meta = json.load(open(os.path.join(d, 'meta.json')))
    pid = meta['property']
    if subprocess.run(['git', '-C', '/repo', 'apply', '--check', os.path.join(d, 'patch.diff')], stderr=subprocess.DEVNULL).returncode != 0:
        meta['outcome'] = 'obsolete: patch no longer applies to /repo HEAD'
        meta['detected_by'] = None
    else:
        subprocess.run(['git', '-C', '/repo', 'apply', os.path.join(d, 'patch.diff')], check=True)
        try:
            r = subprocess.run([os.path.join(HERE, 'check'), pid], cwd=HERE, stdout=subprocess.PIPE, stderr=subprocess.STDOUT, text=True,
                               env=dict(os.environ, VERIF_EVIDENCE_DIR='/tmp/seed-evidence'))
        finally:
            subprocess.run(['git', '-C', '/repo', 'checkout', '--', '.'], check=True)
        obl = re.findall(r'obligation: (.*)', r.stdout)
        if r.returncode == 1:
            meta['outcome'] = 'VIOLATION'
            meta['detected_by'] = sorted(set(o.split(' [')[0] for o in obl))
            meta['replayed'] = 'no-failing-input-found' not in ''.join(l for l in r.stdout.split('\n') if l.startswith('VIOLATION'))
        elif r.returncode == 2:
            meta['outcome'] = 'INCONCLUSIVE (exit 2): ' + '; '.join(re.findall(r'INCONCLUSIVE property=\S+ reason=(.{0,120})', r.stdout)[:1])
            meta['detected_by'] = None
        else:
            meta['outcome'] = 'not detected (exit 0)'
            meta['detected_by'] = None
    json.dump(meta, open(os.path.join(d, 'meta.json'), 'w'), indent=1)
    rows.append((name, pid, meta['outcome'], meta.get('detected_by')))
    print('| %s | %s | %s | %s |' % (name, pid, meta['outcome'][:90], ', '.join(meta.get('detected_by') or [])[:150]), flush=True)
