#!/usr/bin/env python3
"""Run the check of its property against every seeded change in /verif/seeded, each applied to a *scratch copy* of
/repo's working tree (never to /repo itself), several in parallel; record the outcome in seeded/<name>/meta.json
(outcome / detected_by / replayed) and print a markdown table.   usage: seed_matrix.py [name-substring ...]"""
import concurrent.futures
import glob
import json
import os
import re
import shutil
import subprocess
import sys
import tempfile

HERE = os.path.dirname(os.path.dirname(os.path.abspath(__file__)))
REPO = os.environ.get('VERIF_REPO', '/repo')


def one(d):
    name = os.path.basename(d)
    meta = json.load(open(os.path.join(d, 'meta.json')))
    pid = meta['property']
    work = tempfile.mkdtemp(prefix='seedmx.%s.' % name, dir=os.environ.get('TMPDIR', '/var/tmp'))
    try:
        shutil.copytree(os.path.join(REPO, 'src'), os.path.join(work, 'src'))
        for f in ('Cargo.toml', 'Cargo.lock'):
            shutil.copy(os.path.join(REPO, f), os.path.join(work, f))
        a = subprocess.run(['patch', '-p1', '-s', '--no-backup-if-mismatch', '-i', os.path.join(d, 'patch.diff')], cwd=work,
                           stdout=subprocess.PIPE, stderr=subprocess.STDOUT, text=True)
        if a.returncode != 0:
            meta['outcome'] = 'obsolete: patch no longer applies to /repo HEAD'
            meta['detected_by'] = None
        else:
            r = subprocess.run([os.path.join(HERE, 'check'), pid], cwd=HERE, stdout=subprocess.PIPE, stderr=subprocess.STDOUT, text=True,
                               env=dict(os.environ, VERIF_REPO=work, VERIF_EVIDENCE_DIR=os.path.join(work, 'evidence'), VERIF_NO_SELFTEST='1'))
            obl = re.findall(r'obligation: (.*)', r.stdout)
            if r.returncode == 1:
                meta['outcome'] = 'VIOLATION'
                meta['detected_by'] = sorted(set(o.split(' [')[0] for o in obl))
                vl = [l for l in r.stdout.split('\n') if l.startswith('VIOLATION')]
                meta['replayed'] = any('no-failing-input-found' not in l for l in vl)
            elif r.returncode == 2:
                meta['outcome'] = 'INCONCLUSIVE (exit 2): ' + '; '.join(re.findall(r'INCONCLUSIVE property=\S+ reason=(.{0,120})', r.stdout)[:1])
                meta['detected_by'] = None
            else:
                meta['outcome'] = 'not detected (exit %d)' % r.returncode
                meta['detected_by'] = None
    finally:
        shutil.rmtree(work, ignore_errors=True)
    json.dump(meta, open(os.path.join(d, 'meta.json'), 'w'), indent=1)
    return '| %s | %s | %s | %s |' % (name, pid, meta['outcome'][:90], ', '.join(meta.get('detected_by') or [])[:150])


def main():
    dirs = sorted(glob.glob(os.path.join(HERE, 'seeded', '*')))
    if len(sys.argv) > 1:
        dirs = [d for d in dirs if any(s in os.path.basename(d) for s in sys.argv[1:])]
    with concurrent.futures.ThreadPoolExecutor(max_workers=3) as ex:
        for line in ex.map(one, dirs):
            print(line, flush=True)


if __name__ == '__main__':
    main()
