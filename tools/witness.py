#!/usr/bin/env python3
"""witness.py — turn a verifier counterexample into a concrete input and replay it on the real code.

Kani's concrete-playback values (one per kani::any() call, in call order) are decoded per harness
into an input for the *public API* (`parse` / `compile`), executed by the `replay/` crate built
against the current working tree, and the observed result is compared with what the property
demands.  Verus gives no model; for a few contract clauses a small family of canned inputs that
exercise exactly that clause is tried (a search for a failing input, not a proof of anything).
"""
import json
import os
import re
import shutil
import subprocess

HERE = os.path.dirname(os.path.dirname(os.path.abspath(__file__)))


# ------------------------------------------------------------------------------------------------
def build_replayer(repo, scratch, release=False):
    """build replay/ against a copy of the current tree; returns path of the binary or None"""
    d = os.path.join(scratch, 'replay')
    tag = 'bin_path_release' if release else 'bin_path'
    if os.path.exists(os.path.join(d, tag)):
        return open(os.path.join(d, tag)).read()
    if os.path.exists(d):
        return _build_in(d, release, tag)
    shutil.copytree(os.path.join(HERE, 'replay'), d, ignore=shutil.ignore_patterns('target'))
    lib = os.path.join(scratch, 'replay_lib')
    os.makedirs(lib)
    shutil.copytree(os.path.join(repo, 'src'), os.path.join(lib, 'src'))
    for f in ('Cargo.toml', 'Cargo.lock'):
        shutil.copy(os.path.join(repo, f), os.path.join(lib, f))
    toml = open(os.path.join(d, 'Cargo.toml')).read().replace('path = "/repo"', 'path = "%s"' % lib)
    open(os.path.join(d, 'Cargo.toml'), 'w').write(toml)
    return _build_in(d, release, tag)


def _build_in(d, release, tag):
    # dependencies are compiled once into a shared cache (cargo locks it); only the library copy is rebuilt per run
    tdir = os.path.join(HERE, '.cache', 'replay_target')
    os.makedirs(tdir, exist_ok=True)
    env = dict(os.environ, CARGO_NET_OFFLINE='true', CARGO_TARGET_DIR=tdir)
    env.pop('RUSTUP_TOOLCHAIN', None)
    import fcntl
    with open(os.path.join(tdir, '.lock'), 'w') as lk:
        fcntl.flock(lk, fcntl.LOCK_EX)   # build + copy must not interleave with another check's build in the shared cache
        r = subprocess.run(['cargo', 'build', '--offline', '-q'] + (['--release'] if release else []), cwd=d, env=env,
                           stdout=subprocess.PIPE, stderr=subprocess.STDOUT, text=True)
        if r.returncode != 0:
            return None
        p = os.path.join(d, 'fpreplay.release.bin' if release else 'fpreplay.bin')
        shutil.copy(os.path.join(tdir, 'release' if release else 'debug', 'fpreplay'), p)
    open(os.path.join(d, tag), 'w').write(p)
    return p


def run_requests(binary, reqs):
    def esc(s):
        return s.replace('\\', '\\\\').replace('\n', '\\n').replace('\t', '\\t')
    inp = ''.join('\t'.join(esc(x) for x in r) + '\n' for r in reqs)
    r = subprocess.run([binary], input=inp, stdout=subprocess.PIPE, stderr=subprocess.PIPE, text=True, timeout=300)

    def unesc(s):
        out, i = [], 0
        while i < len(s):
            if s[i] == '\\' and i + 1 < len(s):
                out.append({'n': '\n', 't': '\t', '\\': '\\'}.get(s[i + 1], '\\' + s[i + 1])); i += 2
            else:
                out.append(s[i]); i += 1
        return ''.join(out)
    return [[unesc(x) for x in l.split('\t')] for l in r.stdout.split('\n') if l]


# ------------------------------------------------------------------------------------------------
def playback_values(text, check_kind='assertion'):
    """values of the playback test generated for a failed assertion (not for a cover)"""
    blocks = re.split(r'Concrete playback unit test for', text)
    for b in blocks[1:]:
        if ('Check for `%s`' % check_kind) not in b:
            continue
        return re.findall(r'//\s*(-?\d+|true|false)\s*\n\s*vec!\[', b)
    return None


def letters(bits3, names):
    return ''.join(n for n, b in zip(names, (4, 2, 1)) if bits3 & b)


def clause_input(op, who, perm, mode):
    """-perm argument that first builds `mode` from 0 with `=` clauses, then applies `who op perm`"""
    setup = []
    for cls, shift in (('u', 6), ('g', 3), ('o', 0)):
        b = (mode >> shift) & 7
        if b:
            setup.append('%s=%s' % (cls, letters(b, 'rwx')))
    w = ''.join(c for c, m in (('u', 0o700), ('g', 0o070), ('o', 0o007)) if who & m)
    p = ''.join(c for c, m in (('r', 0o444), ('w', 0o222), ('x', 0o111)) if perm & m)
    return '-perm ' + ','.join(setup + [w + op + p])


def chmod(op, who, perm, mode):
    if op == '+':
        return mode | (who & perm)
    if op == '-':
        return mode & ~(who & perm) & 0o7777
    return (mode & ~who & 0o7777) | (who & perm)


def decode_clause(vals, op):
    v = [1 if x in ('1', 'true') else 0 if x in ('0', 'false') else int(x) for x in vals]
    u, g, o, r, w, x, mode = v[:7]
    who = (0o700 if u else 0) | (0o070 if g else 0) | (0o007 if o else 0)
    perm = (0o444 if r else 0) | (0o222 if w else 0) | (0o111 if x else 0)
    return op, who, perm, mode


def perm_constant(scheme_text):
    m = re.search(r'\(= \(logand \(mode\) 4095\) (\d+)\)', scheme_text)
    return int(m.group(1)) if m else None


KANI_DECODERS = {
    'c08_clause_add': '+', 'c08_clause_del': '-', 'c08_clause_set': '=',
}


def find(pid, f, repo, scratch):
    """try to attach a concrete failing input (f['witness'], f['replayed']) to a failure record"""
    if f.get('kind') == 'kani':
        name = f['id'].split('.', 1)[1]
        if name in KANI_DECODERS:
            vals = playback_values(f.get('rendered', '') or '')
            if not vals or len(vals) < 7:
                return
            op, who, perm, mode = decode_clause(vals, KANI_DECODERS[name])
            inp = clause_input(op, who, perm, mode)
            expected = chmod(op, who, perm, mode)
            binary = build_replayer(repo, scratch)
            w = dict(kani_values=vals, decoded=dict(operator=op, who='%04o' % who, perm='%04o' % perm, mode='%04o' % mode),
                     public_api_input=inp, expected_mode='%04o' % expected)
            f['witness'] = w
            if binary:
                out = run_requests(binary, [('compile', inp)])
                if out and out[0][0] == 'OK':
                    obs = perm_constant(out[0][1])
                    w['observed_mode'] = None if obs is None else '%04o' % obs
                    f['replayed'] = obs is not None and obs != expected
                else:
                    w['observed'] = out[0][:2] if out else None
        return
    # Verus failures: inputs that exercise exactly this clause (search only)
    fam = list(CANNED.get(f.get('clause') or '', []))
    gen = GENERATED.get(f.get('clause') or '')
    if gen:
        fam += list(gen())
    if not fam:
        return
    binary = build_replayer(repo, scratch)
    if not binary:
        return
    reqs, owner = [], []
    for ci, c in enumerate(fam):
        for _ in range(c.get('repeat', 1)):
            reqs.append((c['op'],) + tuple(c['input'].split('\t')))
            owner.append(ci)
        if c.get('also'):
            reqs.append((c['also'][0],) + tuple(c['also'][1].split('\t')))
            owner.append(ci)
    outs = run_requests(binary, reqs)
    f['witness_search'] = dict(inputs_tried=len(fam), requests=len(reqs))
    by_case = {}
    for ci, g in zip(owner, outs):
        by_case.setdefault(ci, []).append(g)
    for ci, case in enumerate(fam):
        gs = by_case.get(ci, [])
        if not gs:
            continue
        got = gs[0]
        if case.get('also'):
            bad = len(gs) == 2 and case['bad'](gs[0], gs[1])
        else:
            bad = case['bad'](gs) if case.get('repeat') else case['bad'](got)
        if bad:
            f['witness'] = dict(public_api_input=case['input'], request=case['op'], observed=[x[:300] for x in got[:3]], expected=case['expect'],
                                repeated=case.get('repeat', 1), family=f.get('clause'))
            f['replayed'] = True
            return


def family_table():
    """framed-mode programs with several destinations: the reported table must list exactly the distinct (destination,
    terminator) pairs of the expression, each under the tag its printer definition carries"""
    import itertools
    acts = [('-print0', 'Stdout(Some(\'\\0\'))'), ('-fprint a', 'File("a", Some(\'\\n\'))'), ('-fprint b', 'File("b", Some(\'\\n\'))'),
            ('-fprint0 a', 'File("a", Some(\'\\0\'))'), ('-fprintf a x', 'File("a", None)'), ('-printf x', 'Stdout(None)')]
    cases = []
    for n in (1, 2, 3):
        for combo in itertools.product(acts, repeat=n):
            cases.append(combo)
    for combo in cases:
        inp = ' -o '.join(a for a, _ in combo)
        want = sorted(set(t for _, t in combo))

        def bad(g, want=want):
            if g[0] != 'OK' or len(g) < 3:
                return g[0] == 'OK'
            entries = [e for e in g[2].split(';') if e]
            tags = {}
            for e in entries:
                k, _, v = e.partition('=')
                tags[int(k)] = v
            if sorted(tags.values()) != want:
                return True
            for tag in tags:     # every tag of the table is the tag of a printer definition of the program
                if ('(%%lf3:print:%d (lambda (line) (%%lf3:frame:2 line #\\x%02x)))' % (tag, tag)) not in g[1]:
                    return True
            return False
        yield dict(op='compile', input=inp, expect='table = %s, each under the tag of its printer definition' % want, bad=bad)


def family_options():
    """C13 (front end, bounded): options inserted at word boundaries; the returned options carry the last value of each, the tree is
    the tree of the expression with every misplaced option read as -true (leading ones removed)"""
    import itertools
    bases = [['-name', 'x'], ['-name', 'x', '-o', '-print'], ['(', '-true', ')'], ['!', '-name', 'x', '-size', '+1k']]
    opts = ['-depth', '-threads 2', '-threads 8']
    for base in bases:
        # insertion points: before word i (never between a keyword and its argument)
        points = [i for i in range(len(base) + 1) if i == 0 or base[i - 1] not in ('-name', '-size')]
        for k in (1, 2):
            for chosen in itertools.product(opts, repeat=k):
                for where in itertools.combinations_with_replacement(points, k):
                    words, ref = [], []
                    ins = sorted(zip(where, range(k)))
                    leading = True
                    seq = []   # options in input order
                    for i in range(len(base) + 1):
                        for (pos, j) in ins:
                            if pos == i:
                                words.append(chosen[j]); seq.append(chosen[j])
                                if not (leading and i == 0):
                                    ref.append('-true')
                        if i < len(base):
                            words.append(base[i]); ref.append(base[i]); leading = False
                    threads = None
                    for o in seq:
                        if o.startswith('-threads'):
                            threads = int(o.split()[1])
                    depth = '-depth' in seq
                    want = 'RunOptions { depth: %s, threads: %s }' % ('true' if depth else 'false', 'Some(%d)' % threads if threads is not None else 'None')
                    yield dict(op='parse', input=' '.join(words), also=('parse', ' '.join(ref) if ref else '-true'),
                               expect='%s and the tree of `%s`' % (want, ' '.join(ref)),
                               bad=(lambda g, g2, want=want: g[0] != 'OK' or g2[0] != 'OK' or g[1] != want or g[2] != g2[2]))


def family_parse_total():
    """C03 (front end, bounded): rejected and odd inputs — every prefix and single-character mutation of a few valid inputs, long and
    non-ASCII words as keyword, as argument and as trailing junk: parse returns a value, never panics"""
    valid = ['-name x -o -print', '-size +10k -a ! -type f,d', '-perm -u+rw,g=r -printf "%p\\n"', '( -uid 0 , -mmin -5 ) -fprint out',
             '-threads 4 -depth -xattr-match a b', '-perm 0644']
    seen = set()
    for v in valid:
        for i in range(len(v) + 1):
            for cand in (v[:i], v[:i] + '\u00e9' + v[i:], v[:i] + '"' + v[i:], v[:i] + '(' + v[i + 1:], v[:i] + ' ' + v[i:]):
                if cand not in seen:
                    seen.add(cand)
                    yield dict(op='parse', input=cand, expect='a result or an error value, never a panic', bad=lambda g: g[0] == 'PANIC')
    for kw in ('', '-', '-name ', '-uid ', '-size ', '-perm ', '-type ', '-printf ', '-fprint ', '-newer ', '-threads ', '-amin +'):
        for ch in ('x', '\u00e9', '\u20ac', '\U0001F600'):
            for pad in range(0, 4):
                for n in (1, 15, 16, 23, 24, 31, 32, 44, 45, 46, 47, 48, 63, 64, 100):
                    yield dict(op='parse', input=kw + 'y' * pad + ch * n + ' tail', expect='a result or an error value, never a panic', bad=lambda g: g[0] == 'PANIC')


def family_parse_numbers():
    """C07 (front end, bounded): decimal arguments around the range limits of every numeric primary: exact or rejected"""
    u32max, u64max = 2 ** 32 - 1, 2 ** 64 - 1
    prims32 = [('-uid', 'UserId'), ('-gid', 'GroupId'), ('-inum', 'InodeNumber'), ('-mirror-count', 'MirrorCount'), ('-stripe-count', 'StripeCount')]
    for kw, node in prims32:
        for v in (0, 1, 7, 2 ** 31, u32max, u32max + 1, 2 ** 33, u64max, u64max + 1, 10 ** 30):
            for pre, cmp_ in (('', 'Equal'), ('+', 'GreaterThan'), ('-', 'LesserThan')):
                for zeros in ('', '000'):
                    txt = '%s %s%s%d' % (kw, pre, zeros, v)
                    want = 'Test(%s(%s(%d)))' % (node, cmp_, v)
                    if v <= u32max:
                        yield dict(op='parse', input=txt, expect=want, bad=(lambda g, want=want: g[0] != 'OK' or g[2] != want))
                    else:
                        yield dict(op='parse', input=txt, expect='rejected', bad=lambda g: g[0] == 'OK')
    for v in (0, 5, u32max + 1, u64max, u64max + 1, 10 ** 30):
        txt = '-links %d' % v
        want = 'Test(Links(Equal(%d)))' % v
        if v <= u64max:
            yield dict(op='parse', input=txt, expect=want, bad=(lambda g, want=want: g[0] != 'OK' or g[2] != want))
        else:
            yield dict(op='parse', input=txt, expect='rejected', bad=lambda g: g[0] == 'OK')
    for unit, node in (('c', 'Byte'), ('w', 'Word'), ('b', 'Block'), ('k', 'KiloByte'), ('M', 'MegaByte'), ('G', 'GigaByte'), ('T', 'TeraByte'), ('', 'Block')):
        for v in (0, 1, u64max, u64max + 1):
            txt = '-size %d%s' % (v, unit)
            want = 'Test(Size(Equal(%s(%d))))' % (node, v)
            if v <= u64max:
                yield dict(op='parse', input=txt, expect=want, bad=(lambda g, want=want: g[0] != 'OK' or g[2] != want))
            else:
                yield dict(op='parse', input=txt, expect='rejected', bad=lambda g: g[0] == 'OK')
    for v in (0, 3, u32max, u32max + 1):
        txt = '-threads %d -true' % v
        if v <= u32max:
            want = 'RunOptions { depth: false, threads: Some(%d) }' % v
            yield dict(op='parse', input=txt, expect=want, bad=(lambda g, want=want: g[0] != 'OK' or g[1] != want))
        else:
            yield dict(op='parse', input=txt, expect='rejected', bad=lambda g: g[0] == 'OK')


def family_matchers():
    """C11: two or three name tests with patterns that collide under careless keying (case, suffixes, separators, escapes): the
    number of matcher definitions equals the number of distinct (pattern, case-insensitivity) requests, and every reference in
    the body names a definition whose pattern and matcher kind are those of the request"""
    import itertools
    pats = ['a', 'A', 'a*', 'a/i', 'a:i', 'ai', 'a\\b', 'a\\\\b', 'a"b', '[a]', 'a b']
    kws = [('-name', False), ('-iname', True)]
    reqs = [(kw, ci, p) for p in pats for (kw, ci) in kws]

    def qt(p):
        return "'%s'" % p

    def kind(p, ci):
        g = any(c in p for c in '?*[')
        return ('fnmatch' if g else 'streq') + ('-ci' if ci else '')
    for a, b in itertools.product(reqs, repeat=2):
        inp = '%s %s -o %s %s' % (a[0], qt(a[2]), b[0], qt(b[2]))
        distinct = len({(a[2], a[1]), (b[2], b[1])})

        def bad(g, a=a, b=b, distinct=distinct):
            if g[0] != 'OK':
                return False
            prog = g[1]
            defs = re.findall(r'\(%lf3:match:(\d+) \(lambda \(%lf3:str:\d+\) \(([a-z-]+)\? "((?:[^"\\]|\\.)*)" %lf3:str:\d+\)\)\)', prog)
            if len(defs) != distinct:
                return True
            refs = re.findall(r'\(call-with-name %lf3:match:(\d+)\)', prog)
            if len(refs) != 2:
                return True
            bydef = {d[0]: (d[1], d[2]) for d in defs}
            for (kw, ci, p), ref in zip((a, b), refs):
                if ref not in bydef or bydef[ref] != (kind(p, ci), _scheme_esc(p)):
                    return True
            return False
        yield dict(op='compile', input=inp, expect='%d matcher definition(s); each reference names the definition of its own pattern, case and kind' % distinct, bad=bad)


def family_clock():
    """C15 (bounded): the second embedded by a time test lies within the compile call, also for a second compile call made more than a
    second after the first one in the same process"""
    def bad(g):
        if g[0] != 'OK' or len(g) < 4:
            return False
        t0, t1 = int(g[1]), int(g[2])
        secs = [int(x) for x in re.findall(r'\(quotient \(- (\d+) \(', g[3])]
        return not secs or any(not (t0 <= s <= t1) for s in secs)
    yield dict(op='timed', input='-mmin -5', expect='embedded second within [start, end] of the compile call', bad=bad)
    yield dict(op='sleep', input='1200', expect='', bad=lambda g: False)
    yield dict(op='timed', input='-atime +1 -o -cmin 3', expect='embedded second within [start, end] of the compile call', bad=bad)
    yield dict(op='sleep', input='1100', expect='', bad=lambda g: False)
    yield dict(op='timed', input='-mtime -2', expect='embedded second within [start, end] of the compile call', bad=bad)


def family_determinism():
    """the same input compiled many times in one process (every HashMap instance has its own random hash keys)"""
    inputs = ['-name a -o -iname a -o -name b -o -iname b', '( -name *.log -o -ipath *.log ) -fprint found.txt',
              '-name core -o -iname core', '-fprint a -o -fprint b -o -fprint0 a -o -print0 -o -fprint c',
              '-name x -o -name y -o -name z -o -iname x -o -path x -o -ipath x']
    for inp in inputs:
        yield dict(op='compile', input=inp, repeat=40, expect='byte-identical programs and equal tables on every compilation',
                   bad=lambda gs: len(set(tuple(g) for g in gs)) > 1)


# ------------------------------------------------------------------------------------------------
# generated families: all small expressions over a few atoms, with what the property demands of each
# (used only to look for a concrete failing input once the verifier has reported or could not decide an obligation)
# ------------------------------------------------------------------------------------------------
def gen_exprs(atoms):
    """atoms: list of (text, flags dict) -> (text, merged flags) for: atoms, negated atoms, all binary combinations of two
    atoms under -a / -o / , / juxtaposition, their negations, and every combination of such a pair with a third atom on
    either side (about 7k expressions for 6 atoms)"""
    def merge(a, b):
        return {k: a.get(k, False) or b.get(k, False) for k in set(a) | set(b)}
    ops = (' -a ', ' -o ', ' , ', ' ')
    out = [(t, dict(f)) for t, f in atoms] + [('! ' + t, dict(f)) for t, f in atoms]
    pairs = [(lt + op + rt, merge(lf, rf)) for (lt, lf) in atoms for (rt, rf) in atoms for op in ops]
    out += pairs + [('! ( %s )' % t, f) for t, f in pairs]
    for (pt, pf) in pairs:
        for (at, af) in atoms:
            for op in ops:
                out.append(('( %s )%s%s' % (pt, op, at), merge(pf, af)))
                out.append(('%s%s( %s )' % (at, op, pt), merge(pf, af)))
    return out


def family_wrap():
    atoms = [('-true', {}), ('-false', {}), ('-name x', {}), ('-print', {'action': True}), ('-quit', {'action': True}),
             ('-fprint f', {'action': True})]
    for text, fl in gen_exprs(atoms):
        act = fl.get('action', False)
        yield dict(op='compile', input=text, expect='implicit print iff no action (here: %s)' % ('action present' if act else 'no action'),
                   bad=(lambda g, act=act: g[0] == 'OK' and (('(print-relative-path)' in g[1]) == act)))


def family_refusal():
    atoms = [('-true', {}), ('-name x', {}), ('-print', {}), ('-regex r', {'bad': True}), ('-ls', {'bad': True}), ('nope', {'bad': True}),
             ('-printf "%p"', {}), ('-printf "%Z"', {'bad': True})]
    for text, fl in gen_exprs(atoms):
        bad = fl.get('bad', False)
        yield dict(op='compile', input=text, expect='refused' if bad else 'compiles',
                   bad=(lambda g, bad=bad: (g[0] == 'OK' and bad) or (g[0] == 'CERR' and not bad)))


def family_numbers():
    vals = [0, 1, 9, 2 ** 31 - 1, 2 ** 31, 2 ** 32 - 1]
    big = [2 ** 32, 2 ** 32 + 1, 2 ** 63, 2 ** 64 - 1]
    prims = [('-uid', 'uid', vals), ('-gid', 'gid', vals), ('-inum', 'ino', vals), ('-mirror-count', 'lov-mirror-count', vals),
             ('-stripe-count', 'lov-stripe-count', vals), ('-links', 'nlink', vals + big)]
    for kw, field, vs in prims:
        for v in vs:
            for pre, op in (('', '='), ('+', '>'), ('-', '<')):
                want = '(%s (%s) %d)' % (op, field, v)
                yield dict(op='compile', input='%s %s%d' % (kw, pre, v), expect=want, bad=(lambda g, want=want: g[0] == 'OK' and want not in g[1]))
    for n in (0, 1, 7, 4096, 2 ** 32 - 1):
        yield dict(op='compile', input='-threads %d -true' % n, expect='scan call ends with %d))' % n,
                   bad=(lambda g, n=n: g[0] == 'OK' and ('\n        %d))' % n) not in g[1]))


def family_panics():
    """long non-ASCII arguments for every string-taking primary: looks for a panic (bad = the call panicked)"""
    kws = ['-name', '-iname', '-path', '-ipath', '-regex', '-iregex', '-user', '-group', '-fstype', '-samefile', '-lname', '-ilname',
           '-anewer', '-cnewer', '-mnewer', '-pool', '-xattr', '-fprint', '-fprint0', '-fls']
    for kw in kws:
        for ch in ('\u00e9', '\u20ac', '\U0001F600'):
            for pad in range(0, 4):
                for n in (20, 30, 40, 44, 45, 46, 47, 48, 60, 80, 90, 100, 120):
                    arg = 'a' * pad + ch * n
                    yield dict(op='compile', input='%s %s' % (kw, arg), expect='a result or an error value, never a panic', bad=lambda g: g[0] == 'PANIC')
    for arg in ('\u00e9' * 70, 'x' * 46 + '\u00e9tat', '-' + 'x' * 46 + '\u00e9tat'):
        yield dict(op='parse', input=arg, expect='an error value, never a panic', bad=lambda g: g[0] == 'PANIC')


def _scheme_esc(s):
    return s.replace('\\', '\\\\').replace('"', '\\"')


def family_hostile():
    """user strings and device paths made of characters and words that a careless implementation would interpret"""
    words = ['a"b', 'a\\b', '{mdt}', '{policy}', '{options}', '{}', '{0}', '~a', '~', '%s', 'x y', "it's", 'caf\u00e9', '$1', '#t', '(x)', ';c', '{fini}', '{definitions}']
    paths = ['/', '/dev/a"b', '/mnt/{options}/mdt0', '/mnt/{policy}', '/a\\b', '/x y', '/{mdt}', '/~a', '/caf\u00e9', '/{fini}/{modules}']

    def quote(wd):
        return "'%s'" % wd if "'" not in wd else '"%s"' % wd
    for wd in words:
        if '"' in wd and "'" in wd:
            continue
        for p in paths:
            want_dev = '(lipe-scan\n        "%s"\n' % _scheme_esc(p)
            want_pat = '(streq? "%s" ' % _scheme_esc(wd)
            yield dict(op='compile', input='-name %s\t%s' % (quote(wd), p),
                       expect='device literal "%s" after (lipe-scan, and the pattern literal "%s" in its matcher' % (_scheme_esc(p), _scheme_esc(wd)),
                       bad=(lambda g, a=want_dev, b=want_pat: g[0] == 'OK' and (a not in g[1] or b not in g[1])))


GENERATED = {
    'BOUNDED.clock_window': family_clock, 'C07.time_comp.text': family_clock,
    'BOUNDED.parse_options': family_options, 'BOUNDED.parse_total': family_parse_total, 'BOUNDED.parse_numbers': family_parse_numbers,
    'ASSUME.printer_map': family_table, 'C10.table.keys': family_table,
    'C09.top.wrap_decision': family_wrap, 'C19.action.iff': family_wrap, 'C09.emit.structure': family_wrap,
    'C12.refusal.iff': family_refusal, 'C12.top.iff': family_refusal,
    'C11.body.matcher_ref': family_numbers, 'C13.top.threads_value': family_numbers, 'C13.update.threads': family_numbers,
    'ASSUME.string_truncate': family_panics,
    'C20.render.text': family_hostile, 'C04.escape.string': family_hostile,
    'C11.local.matcher.share': family_matchers, 'C11.dist.matcher.share': family_matchers, 'C11.local.matcher.fresh': family_matchers,
    'C11.dist.matcher.fresh': family_matchers, 'C11.local.matcher.model': family_matchers, 'C11.dist.matcher.model': family_matchers,
    'C11.local.definitions': family_determinism, 'C11.dist.definitions': family_determinism,
    'C11.local.matcher.text': family_determinism, 'C11.dist.matcher.text': family_determinism,
}


def _has(sub):
    return lambda got: got[0] == 'OK' and sub in got[1]


def _is(kind):
    return lambda got: got[0] == kind


CANNED = {
    # clause id -> inputs whose outcome the clause fixes; `bad` recognises an outcome that violates it
    'C19.action.iff': [
        dict(op='compile', input='-quit', expect='no implicit print when an action is present', bad=_has('(print-relative-path)')),
        dict(op='compile', input='-true -o -quit', expect='no implicit print when an action is present', bad=_has('(print-relative-path)')),
        dict(op='compile', input='! -print', expect='no implicit print when an action is present', bad=_has('(print-relative-path)')),
        dict(op='compile', input='-true , -prune -o -print', expect='no implicit print', bad=_has('(print-relative-path)')),
        dict(op='compile', input='-true , -false', expect='implicit print when no action is present', bad=lambda g: g[0] == 'OK' and '(print-relative-path)' not in g[1]),
        dict(op='compile', input='-name a', expect='implicit print when no action is present', bad=lambda g: g[0] == 'OK' and '(print-relative-path)' not in g[1]),
    ],
    'C09.top.wrap_decision': [
        dict(op='compile', input='-false -o -name x', expect='implicit print when no action is present', bad=lambda g: g[0] == 'OK' and '(print-relative-path)' not in g[1]),
        dict(op='compile', input='-name x -a ( -false -o -true )', expect='implicit print when no action is present', bad=lambda g: g[0] == 'OK' and '(print-relative-path)' not in g[1]),
        dict(op='compile', input='! -name x', expect='implicit print when no action is present', bad=lambda g: g[0] == 'OK' and '(print-relative-path)' not in g[1]),
        dict(op='compile', input='-true , -quit', expect='no implicit print when an action is present', bad=_has('(print-relative-path)')),
    ],
    'C19.byte_size.value': [
        dict(op='compile', input='-size +16777216T', expect='constant 18446744073709551616', bad=lambda g: g[0] == 'OK' and ' 18446744073709551616)' not in g[1]),
        dict(op='compile', input='-size 36028797018963971', expect='constant 18446744073709553152', bad=lambda g: g[0] == 'OK' and ' 18446744073709553152)' not in g[1]),
        dict(op='compile', input='-size -3k', expect='constant 3072', bad=lambda g: g[0] == 'OK' and ' 3072)' not in g[1]),
    ],
    'C04.format.text': [
        dict(op='compile', input='-printf "backup~"', expect='(format #f "backup~~" )', bad=lambda g: g[0] == 'OK' and '(format #f "backup~~" )' not in g[1]),
        dict(op='compile', input="-printf 'a\"b%p'", expect='template a\\"b~a inside (format #f …)', bad=lambda g: g[0] == 'OK' and '(format #f "a\\"b~a" (absolute-path))' not in g[1]),
        dict(op='compile', input='-printf "%p\\n"', expect='(format #f "~a\\n" (absolute-path))', bad=lambda g: g[0] == 'OK' and '(format #f "~a\\n" (absolute-path))' not in g[1]),
    ],
    'C20.render.text': [
        dict(op='compile', input='-true\t/dev/a"b', expect='device literal "/dev/a\\"b"', bad=lambda g: g[0] == 'OK' and '"/dev/a\\"b"' not in g[1]),
        dict(op='compile', input='-true\t/dev/a\nb', expect='device literal with the newline itself', bad=lambda g: g[0] == 'OK' and '"/dev/a\nb"' not in g[1]),
    ],
    'C12.refusal.iff': [
        dict(op='compile', input='-regex foo , -print', expect='refused (unsupported test left of a comma)', bad=_is('OK')),
        dict(op='compile', input='nope', expect='refused (unsupported option)', bad=_is('OK')),
        dict(op='compile', input='-true -o -regex x', expect='refused (unsupported test in a dead branch)', bad=_is('OK')),
        dict(op='compile', input='! ( -name a -o -samefile b )', expect='refused', bad=_is('OK')),
        dict(op='compile', input='-printf "%p%Z"', expect='refused (unsupported format directive)', bad=_is('OK')),
        dict(op='compile', input='-ls', expect='refused (unsupported action)', bad=_is('OK')),
        dict(op='compile', input='-name a -print', expect='compiles', bad=_is('CERR')),
    ],
    'C13.update.threads': [
        dict(op='parse', input='-threads 3 -threads 9', expect='threads: Some(9)', bad=lambda g: g[0] == 'OK' and 'threads: Some(9)' not in g[1]),
    ],
    'C13.update.depth': [
        dict(op='parse', input='-depth -threads 2', expect='depth: true', bad=lambda g: g[0] == 'OK' and 'depth: true' not in g[1]),
    ],
}


# functions left outside the verifier (assumed contracts) that get a BOUNDED stand-in: the family is run on every check
BOUNDED_STANDINS = {
    'C15': [('BOUNDED.clock_window', 'BOUNDED.clock_window', 'compile_time_comp\'s clock read (SystemTime: no clock model in the verifier) — bounded stand-in: three '
             'time-test compilations in one process more than a second apart; each embedded second must lie within its own compile call')],
    'C13': [('BOUNDED.parse_options', 'BOUNDED.parse_options', 'find_parser::_parse (winnow combinators and closures over &mut state: outside the verifier) — bounded '
             'stand-in: 1..2 options out of {-depth, -threads 2, -threads 8} inserted at every word boundary of 4 base expressions; the options returned '
             'carry the last value of each and the tree is that of the expression with misplaced options read as -true')],
    'C03': [('BOUNDED.parse_total', 'BOUNDED.parse_total', 'find_parser::parse incl. ParserError::dispatch (outside the verifier) — bounded stand-in: every prefix and '
             'four single-character mutations at every position of 6 valid inputs, and long / non-ASCII words after 12 keywords: never a panic')],
    'C07': [('BOUNDED.parse_numbers', 'BOUNDED.parse_numbers', 'the digit-run conversions of find_parser (winnow try_map over str::parse: outside the verifier) — bounded '
             'stand-in: decimal arguments around 0, 2^31, 2^32, 2^64 and 10^30 for every numeric primary, with signs and leading zeros: exact in the tree or rejected')],
    'C10': [('BOUNDED.printer_map', 'ASSUME.printer_map',
             'DistributedSchemeManager::printer_map (iterator over the hash map: external_body) — bounded stand-in: all expressions of up to 3 '
             'output actions over 6 destination/terminator kinds; the table must be the inverse of the tag map')],
}


def profile_agreement(repo, scratch):
    """C17 (bounded): a debug and a release build of the replay crate must answer every request of the corpora identically
    (the embedded clock second normalised)"""
    f = dict(id='BOUNDED.profile_agreement', clause='BOUNDED.profile_agreement', kind='bounded', fn='the whole library, debug vs release build', cfg='replay',
             message='', rendered='', repo_file=None, repo_line=None, expr='')
    dbg = build_replayer(repo, scratch)
    rel = build_replayer(repo, scratch, release=True)
    if not dbg or not rel:
        f['witness_error'] = 'could not build both profiles'
        return f
    reqs, seen = [], set()
    for fam in (family_parse_total, family_parse_numbers, family_options, family_numbers, family_refusal, family_hostile, family_table, family_panics):
        for c in fam():
            r = (c['op'],) + tuple(c['input'].split('\t'))
            if r not in seen:
                seen.add(r); reqs.append(r)
    for v in ('-size +16777216T', '-size 18446744073709551615T', '-size -1c', '-amin -5 -o -mtime +2', 'nope', '-perm 7777', '-perm 17777'):
        reqs.append(('compile', v))
    a, b = run_requests(dbg, reqs), run_requests(rel, reqs)
    norm = lambda g: [re.sub(r'\(- \d{9,12} \(', '(- NOW (', x) for x in g]
    f['witness_search'] = dict(inputs_tried=len(reqs), requests=2 * len(reqs))
    for r, x, y in zip(reqs, a, b):
        if norm(x) != norm(y):
            f['witness'] = dict(public_api_input='\t'.join(r[1:]), request=r[0], observed=dict(debug=[s[:200] for s in x[:2]], release=[s[:200] for s in y[:2]]),
                                expected='the same answer from both builds')
            f['replayed'] = True
            break
    return f


def bounded_standins(pid, repo, scratch):
    out = []
    if pid == 'C17':
        f = profile_agreement(repo, scratch)
        out.append(('BOUNDED.profile_agreement', 'debug and release builds of the library (front end included: outside the verifier) — bounded stand-in: both '
                    'builds must answer identically on the corpora of the other stand-ins and witness families (about 30k parse/compile requests)', f))
    for name, key, claim in BOUNDED_STANDINS.get(pid, []):
        f = dict(id=name, clause=key, kind='bounded', fn=claim.split(' (')[0], cfg='replay',
                 message=claim, rendered='', repo_file=None, repo_line=None, expr='')
        find(pid, f, repo, scratch)
        out.append((name, claim, f))
    return out


def replay(record, repo):
    """./check <id> --replay FILE : re-run the recorded input on the current tree"""
    import tempfile
    w = record.get('failing_input') or {}
    inp = w.get('public_api_input')
    if not inp:
        print('no concrete input recorded (the verifier gave no counterexample for this obligation)')
        return 0
    scratch = tempfile.mkdtemp(prefix='fpreplay.', dir=os.environ.get('TMPDIR', '/var/tmp'))
    try:
        binary = build_replayer(repo, scratch)
        if not binary:
            print('could not build the replay crate')
            return 2
        reqs = [(w.get('request', 'compile'),) + tuple(inp.split('\t'))] * int(w.get('repeated') or 1)
        out = run_requests(binary, reqs)
        print('input   :', inp.replace('\t', '   [device path:] '))
        print('expected:', w.get('expected_mode') or w.get('expected'))
        print('observed:', ([x[:400] for x in out[0][:2]] if out else None))
        if w.get('expected_mode') is not None and out and out[0][0] == 'OK':
            obs = perm_constant(out[0][1])
            print('observed mode: %s' % (None if obs is None else '%04o' % obs))
            return 1 if obs is not None and '%04o' % obs != w['expected_mode'] else 0
        # re-evaluate the oracle of the family the input came from
        fam = list(CANNED.get(w.get('family') or '', []))
        gen = GENERATED.get(w.get('family') or '')
        if gen:
            fam += list(gen())
        for case in fam:
            if case['input'] == inp and case['op'] == w.get('request', 'compile'):
                bad = case['bad'](out) if case.get('repeat') else case['bad'](out[0])
                print('still violates the clause on the current tree' if bad else 'no longer violates the clause on the current tree')
                return 1 if bad else 0
        return 0
    finally:
        shutil.rmtree(scratch, ignore_errors=True)
