#!/usr/bin/env python3
"""witness.py — turn a verifier counterexample into a concrete input and replay it on the real code.

Kani's concrete-playback values (one per kani::any() call, in call order) are decoded per harness
into an input for the *public API* (`parse` / `compile`), executed by the `replay/` crate built
against the current working tree, and the observed result is compared with what the property
demands.  Verus gives no model; for a few contract clauses a small family of canned inputs that
exercise exactly that clause is tried (a search for a failing input, not a proof of anything).
"""
import json
import os
import re
import shutil
import subprocess

HERE = os.path.dirname(os.path.dirname(os.path.abspath(__file__)))


# ------------------------------------------------------------------------------------------------
def build_replayer(repo, scratch, release=False):
    """build replay/ against a copy of the current tree; returns path of the binary or None"""
    d = os.path.join(scratch, 'replay')
    tag = 'bin_path_release' if release else 'bin_path'
    if os.path.exists(os.path.join(d, tag)):
        return open(os.path.join(d, tag)).read()
    if os.path.exists(d):
        return _build_in(d, release, tag)
    shutil.copytree(os.path.join(HERE, 'replay'), d, ignore=shutil.ignore_patterns('target'))
    lib = os.path.join(scratch, 'replay_lib')
    os.makedirs(lib)
    shutil.copytree(os.path.join(repo, 'src'), os.path.join(lib, 'src'))
    for f in ('Cargo.toml', 'Cargo.lock'):
        shutil.copy(os.path.join(repo, f), os.path.join(lib, f))
    toml = open(os.path.join(d, 'Cargo.toml')).read().replace('path = "/repo"', 'path = "%s"' % lib)
    open(os.path.join(d, 'Cargo.toml'), 'w').write(toml)
    return _build_in(d, release, tag)


def _build_in(d, release, tag):
    # dependencies are compiled once into a shared cache (cargo locks it); only the library copy is rebuilt per run
    tdir = os.path.join(HERE, '.cache', 'replay_target')
    os.makedirs(tdir, exist_ok=True)
    env = dict(os.environ, CARGO_NET_OFFLINE='true', CARGO_TARGET_DIR=tdir, CARGO_INCREMENTAL='0')
    env.pop('RUSTUP_TOOLCHAIN', None)
    import fcntl
    with open(os.path.join(tdir, '.lock'), 'w') as lk:
        fcntl.flock(lk, fcntl.LOCK_EX)   # build + copy must not interleave with another check's build in the shared cache
        r = subprocess.run(['cargo', 'build', '--offline', '-q'] + (['--release'] if release else []), cwd=d, env=env,
                           stdout=subprocess.PIPE, stderr=subprocess.STDOUT, text=True)
        if r.returncode != 0:
            return None
        p = os.path.join(d, 'fpreplay.release.bin' if release else 'fpreplay.bin')
        prof = os.path.join(tdir, 'release' if release else 'debug')
        shutil.copy(os.path.join(prof, 'fpreplay'), p)
        # the library copy and the replay crate live at a fresh path every run, so their artefacts are never reused: drop them
        # (only the third-party dependencies stay cached)
        import glob as _g
        for pat in ('deps/*lipe_find_parser-*', 'deps/*fpreplay-*', '.fingerprint/lipe-find-parser-*', '.fingerprint/fpreplay-*', 'incremental/*'):
            for x in _g.glob(os.path.join(prof, pat)):
                if os.path.isdir(x):
                    shutil.rmtree(x, ignore_errors=True)
                else:
                    try:
                        os.remove(x)
                    except OSError:
                        pass
    open(os.path.join(d, tag), 'w').write(p)
    return p


def run_requests(binary, reqs):
    """one replayer process answers the requests in order; a ('restart', …) request ends that process and starts a fresh one for what
    follows (its own answer is OK/restarted), so that a family can compare an answer with the one a fresh process gives"""
    if any(r and r[0] == 'restart' for r in reqs):
        out, seg = [], []
        for r in list(reqs) + [('restart', '')]:
            if r and r[0] == 'restart':
                if seg:
                    got = _run_segment(binary, seg)
                    out += got + [['PANIC', 'HANG: no answer']] * (len(seg) - len(got))
                out.append(['OK', 'restarted'])
                seg = []
            else:
                seg.append(r)
        return out[:-1]
    return _run_segment(binary, reqs)


def _run_segment(binary, reqs):
    def esc(s):
        return s.replace('\\', '\\\\').replace('\n', '\\n').replace('\t', '\\t').replace('\r', '\\r')
    # a request that does not return within the replayer's limit ends that process with a HANG line: it is restarted on the rest
    stdout_parts, rest, restarts = [], list(reqs), 0
    while rest and restarts < 25:
        inp = ''.join('\t'.join(esc(x) for x in r) + '\n' for r in rest)
        r = subprocess.run([binary], input=inp.encode('utf-8'), stdout=subprocess.PIPE, stderr=subprocess.PIPE, timeout=3600)
        out = r.stdout.decode('utf-8', 'replace')
        lines = [l for l in out.split('\n') if l]
        stdout_parts += lines
        if r.returncode == 3 and lines and lines[-1].startswith('HANG'):
            rest = rest[len(lines):]
            restarts += 1
        else:
            break
    stdout = '\n'.join(stdout_parts)

    def unesc(s):
        out, i = [], 0
        while i < len(s):
            if s[i] == '\\' and i + 1 < len(s):
                out.append({'n': '\n', 't': '\t', 'r': '\r', '\\': '\\'}.get(s[i + 1], '\\' + s[i + 1])); i += 2
            else:
                out.append(s[i]); i += 1
        return ''.join(out)
    res = [[unesc(x) for x in l.split('\t')] for l in stdout.split('\n') if l]
    # "never a crash or hang": an answer that does not come is treated like a panic by every oracle
    return [(['PANIC', 'HANG: ' + ' '.join(g[1:])] if g and g[0] == 'HANG' else g) for g in res]


# ------------------------------------------------------------------------------------------------
def playback_values(text, check_kind='assertion'):
    """values of the playback test generated for a failed assertion (not for a cover)"""
    blocks = re.split(r'Concrete playback unit test for', text)
    for b in blocks[1:]:
        if ('Check for `%s`' % check_kind) not in b:
            continue
        return re.findall(r'//\s*(-?\d+|true|false)\s*\n\s*vec!\[', b)
    return None


def letters(bits3, names):
    return ''.join(n for n, b in zip(names, (4, 2, 1)) if bits3 & b)


def clause_input(op, who, perm, mode):
    """-perm argument that first builds `mode` from 0 with `=` clauses, then applies `who op perm`"""
    setup = []
    for cls, shift in (('u', 6), ('g', 3), ('o', 0)):
        b = (mode >> shift) & 7
        if b:
            setup.append('%s=%s' % (cls, letters(b, 'rwx')))
    w = ''.join(c for c, m in (('u', 0o700), ('g', 0o070), ('o', 0o007)) if who & m)
    p = ''.join(c for c, m in (('r', 0o444), ('w', 0o222), ('x', 0o111)) if perm & m)
    return '-perm ' + ','.join(setup + [w + op + p])


def chmod(op, who, perm, mode):
    if op == '+':
        return mode | (who & perm)
    if op == '-':
        return mode & ~(who & perm) & 0o7777
    return (mode & ~who & 0o7777) | (who & perm)


def decode_clause(vals, op):
    v = [1 if x in ('1', 'true') else 0 if x in ('0', 'false') else int(x) for x in vals]
    u, g, o, r, w, x, mode = v[:7]
    who = (0o700 if u else 0) | (0o070 if g else 0) | (0o007 if o else 0)
    perm = (0o444 if r else 0) | (0o222 if w else 0) | (0o111 if x else 0)
    return op, who, perm, mode


def perm_constant(scheme_text):
    m = re.search(r'\(= \(logand \(mode\) 4095\) (\d+)\)', scheme_text)
    return int(m.group(1)) if m else None


KANI_DECODERS = {
    'c08_clause_add': '+', 'c08_clause_del': '-', 'c08_clause_set': '=',
}


def generators_for(key):
    """input families that exercise a clause: the exact entry of GENERATED, then the rules of FAMILY_RULES (by clause-id pattern)"""
    out = []
    g = GENERATED.get(key)
    if g is not None:
        out += list(g) if isinstance(g, (tuple, list)) else [g]
    for pat, fams in FAMILY_RULES:
        if re.search(pat, key):
            out += [f for f in fams if f not in out]
    return tuple(out)


def cases_for(key):
    fam = list(CANNED.get(key, []))
    for gen in generators_for(key):
        fam += list(gen())
    return fam


def find(pid, f, repo, scratch):
    """try to attach a concrete failing input (f['witness'], f['replayed']) to a failure record"""
    if f.get('kind') == 'kani':
        name = f['id'].split('.', 1)[1]
        if name in KANI_DECODERS:
            vals = playback_values(f.get('rendered', '') or '')
            if not vals or len(vals) < 7:
                return
            op, who, perm, mode = decode_clause(vals, KANI_DECODERS[name])
            inp = clause_input(op, who, perm, mode)
            expected = chmod(op, who, perm, mode)
            binary = build_replayer(repo, scratch)
            w = dict(kani_values=vals, decoded=dict(operator=op, who='%04o' % who, perm='%04o' % perm, mode='%04o' % mode),
                     public_api_input=inp, expected_mode='%04o' % expected)
            f['witness'] = w
            if binary:
                out = run_requests(binary, [('compile', inp)])
                if out and out[0][0] == 'OK':
                    obs = perm_constant(out[0][1])
                    w['observed_mode'] = None if obs is None else '%04o' % obs
                    f['replayed'] = obs is not None and obs != expected
                else:
                    w['observed'] = out[0][:2] if out else None
        return
    # Verus failures: inputs that exercise exactly this clause (search only)
    key = f.get('clause') or f.get('clause_for_witness') or ''
    fam = cases_for(key)
    if (not fam or key.startswith('ASSUME.')) and f.get('kind') in ('overflow', 'bounds', 'unreachable', 'termination', 'divzero', 'panic', 'precondition'):
        # a panic condition the verifier could not exclude: look for an input that panics
        key = 'SAFETY.undecided'
        fam = fam + cases_for(key)
    if not fam:
        return
    binary = build_replayer(repo, scratch)
    if not binary:
        return
    reqs, owner = [], []
    for ci, c in enumerate(fam):
        for _ in range(c.get('repeat', 1)):
            reqs.append((c['op'],) + tuple(c['input'].split('\t')))
            owner.append(ci)
        if c.get('also'):
            reqs.append((c['also'][0],) + tuple(c['also'][1].split('\t')))
            owner.append(ci)
        for extra in c.get('also3', ()):
            reqs.append((extra[0],) + tuple(extra[1].split('\t')))
            owner.append(ci)
    outs = run_requests(binary, reqs)
    f['witness_search'] = dict(inputs_tried=len(fam), requests=len(reqs))
    by_case = {}
    for ci, g in zip(owner, outs):
        by_case.setdefault(ci, []).append(g)
    for ci, case in enumerate(fam):
        gs = by_case.get(ci, [])
        if not gs:
            continue
        got = gs[0]
        if case.get('also3'):
            bad = len(gs) == 1 + len(case['also3']) and case['bad'](*gs)
        elif case.get('also'):
            bad = len(gs) == 2 and case['bad'](gs[0], gs[1])
        else:
            bad = case['bad'](gs) if case.get('repeat') else case['bad'](got)
        if bad:
            f['witness'] = dict(public_api_input=case['input'], request=case['op'], observed=[x[:300] for x in got[:3]], expected=case['expect'],
                                repeated=case.get('repeat', 1), family=key)
            f['replayed'] = True
            return


def family_table():
    """framed-mode programs with several destinations: the reported table must list exactly the distinct (destination,
    terminator) pairs of the expression, each under the tag its printer definition carries"""
    import itertools
    acts = [('-print0', 'Stdout(Some(\'\\0\'))'), ('-fprint a', 'File("a", Some(\'\\n\'))'), ('-fprint b', 'File("b", Some(\'\\n\'))'),
            ('-fprint0 a', 'File("a", Some(\'\\0\'))'), ('-fprintf a x', 'File("a", None)'), ('-printf x', 'Stdout(None)')]
    cases = []
    for n in (1, 2, 3):
        for combo in itertools.product(acts, repeat=n):
            cases.append(combo)
    for combo in cases:
        inp = ' -o '.join(a for a, _ in combo)
        want = sorted(set(t for _, t in combo))

        def bad(g, want=want):
            if g[0] != 'OK' or len(g) < 3:
                return g[0] == 'OK'
            entries = [e for e in g[2].split(';') if e]
            tags = {}
            for e in entries:
                k, _, v = e.partition('=')
                tags[int(k)] = v
            if sorted(tags.values()) != want:
                return True
            for tag in tags:     # every tag of the table is the tag of a printer definition of the program
                if ('(%%lf3:print:%d (lambda (line) (%%lf3:frame:2 line #\\x%02x)))' % (tag, tag)) not in g[1]:
                    return True
            return False
        yield dict(op='compile', input=inp, expect='table = %s, each under the tag of its printer definition' % want, bad=bad)
        if len(combo) <= 2:
            # routing does not depend on the run options; the whole program must also keep its structure (names bound once, …)
            for pre in ('-threads 1 ', '-depth -threads 2 '):
                def bad2(g, bad=bad):
                    return bad(g) or (g[0] == 'OK' and program_defects(g[1], g[2] if len(g) > 2 else '') is not None)
                want2 = sorted(set(want + ["Stdout(Some('\\n'))"]))

                def bad3(g, want2=want2):
                    if g[0] != 'OK':
                        return False
                    vals = sorted(e.partition('=')[2] for e in (g[2] if len(g) > 2 else '').split(';') if e)
                    return vals != want2 or program_defects(g[1], g[2] if len(g) > 2 else '') is not None
                yield dict(op='compile', input=pre + inp + ' -o -print', expect='table = %s whatever the run options, names bound once' % want2, bad=bad3)


def family_options():
    """C13 (front end, bounded): options inserted at word boundaries; the returned options carry the last value of each, the tree is
    the tree of the expression with every misplaced option read as -true (leading ones removed)"""
    import itertools
    bases = [['-name', 'x'], ['-name', 'x', '-o', '-print'], ['(', '-true', ')'], ['!', '-name', 'x', '-size', '+1k'],
             # primaries whose keyword begins like an operator keyword (-a…): two options at most, to keep the family small
             ['-amin', '5'], ['-atime', '+1', '-o', '-anewer', 'f'], ['-empty', '-a', '-amin', '-3']]
    opts = ['-depth', '-threads 2', '-threads 8']
    for base in bases:
        # insertion points: before word i (never between a keyword and its argument)
        points = [i for i in range(len(base) + 1) if i == 0 or base[i - 1] not in ('-name', '-size', '-amin', '-atime', '-anewer')]
        for k in ((1, 2, 3) if bases.index(base) < 4 else (1, 2)):
            for chosen in itertools.product(opts, repeat=k):
                for where in itertools.combinations_with_replacement(points, k):
                    words, ref = [], []
                    ins = sorted(zip(where, range(k)))
                    leading = True
                    seq = []   # options in input order
                    for i in range(len(base) + 1):
                        for (pos, j) in ins:
                            if pos == i:
                                words.append(chosen[j]); seq.append(chosen[j])
                                if not (leading and i == 0):
                                    ref.append('-true')
                        if i < len(base):
                            words.append(base[i]); ref.append(base[i]); leading = False
                    threads = None
                    for o in seq:
                        if o.startswith('-threads'):
                            threads = int(o.split()[1])
                    depth = '-depth' in seq
                    want = 'RunOptions { depth: %s, threads: %s }' % ('true' if depth else 'false', 'Some(%d)' % threads if threads is not None else 'None')
                    tail = ('\n        %d))\n' % threads) if threads is not None else '\n        (lipe-getopt-thread-count)))\n'

                    def bad(g, g2, g3, want=want, tail=tail):
                        if g[0] != 'OK' or g2[0] != 'OK' or g[1] != want or g[2] != g2[2]:
                            return True
                        # … and the value reaches the emitted scan call (its last argument)
                        return g3[0] == 'OK' and tail not in g3[1]
                    yield dict(op='parse', input=' '.join(words), also3=(('parse', ' '.join(ref) if ref else '-true'), ('compile', ' '.join(words))),
                               expect='%s, the tree of `%s`, and that thread count as the last argument of the scan call' % (want, ' '.join(ref)), bad=bad)


def family_parse_total():
    """C03 (front end, bounded): rejected and odd inputs — every prefix and single-character mutation of a few valid inputs, long and
    non-ASCII words as keyword, as argument and as trailing junk: parse returns a value, never panics"""
    valid = ['-name x -o -print', '-size +10k -a ! -type f,d', '-perm -u+rw,g=r -printf "%p\\n"', '( -uid 0 , -mmin -5 ) -fprint out',
             '-threads 4 -depth -xattr-match a b', '-perm 0644']
    seen = set()
    for v in valid:
        for i in range(len(v) + 1):
            for cand in (v[:i], v[:i] + '\u00e9' + v[i:], v[:i] + '"' + v[i:], v[:i] + '(' + v[i + 1:], v[:i] + ' ' + v[i:]):
                if cand not in seen:
                    seen.add(cand)
                    yield dict(op='parse', input=cand, expect='a result or an error value, never a panic', bad=lambda g: g[0] == 'PANIC')
    for kw in ('', '-', '-name ', '-uid ', '-size ', '-perm ', '-type ', '-printf ', '-fprint ', '-newer ', '-threads ', '-amin +'):
        for ch in ('x', '\u00e9', '\u20ac', '\U0001F600'):
            for pad in range(0, 4):
                for n in (1, 15, 16, 23, 24, 31, 32, 44, 45, 46, 47, 48, 63, 64, 100):
                    yield dict(op='parse', input=kw + 'y' * pad + ch * n + ' tail', expect='a result or an error value, never a panic', bad=lambda g: g[0] == 'PANIC')


def family_parse_numbers():
    """C07 (front end, bounded): decimal arguments around the range limits of every numeric primary: exact or rejected"""
    u32max, u64max = 2 ** 32 - 1, 2 ** 64 - 1
    prims32 = [('-uid', 'UserId'), ('-gid', 'GroupId'), ('-inum', 'InodeNumber'), ('-mirror-count', 'MirrorCount'), ('-stripe-count', 'StripeCount')]
    for kw, node in prims32:
        for v in (0, 1, 7, 2 ** 31, u32max, u32max + 1, 2 ** 33, u64max, u64max + 1, 10 ** 30):
            for pre, cmp_ in (('', 'Equal'), ('+', 'GreaterThan'), ('-', 'LesserThan')):
                for zeros in ('', '000'):
                    txt = '%s %s%s%d' % (kw, pre, zeros, v)
                    want = 'Test(%s(%s(%d)))' % (node, cmp_, v)
                    if v <= u32max:
                        yield dict(op='parse', input=txt, expect=want, bad=(lambda g, want=want: g[0] != 'OK' or g[2] != want))
                    else:
                        yield dict(op='parse', input=txt, expect='rejected', bad=lambda g: g[0] == 'OK')
    for v in (0, 5, u32max + 1, u64max, u64max + 1, 10 ** 30):
        txt = '-links %d' % v
        want = 'Test(Links(Equal(%d)))' % v
        if v <= u64max:
            yield dict(op='parse', input=txt, expect=want, bad=(lambda g, want=want: g[0] != 'OK' or g[2] != want))
        else:
            yield dict(op='parse', input=txt, expect='rejected', bad=lambda g: g[0] == 'OK')
    for unit, node in (('c', 'Byte'), ('w', 'Word'), ('b', 'Block'), ('k', 'KiloByte'), ('M', 'MegaByte'), ('G', 'GigaByte'), ('T', 'TeraByte'), ('', 'Block')):
        for v in (0, 1, u64max, u64max + 1):
            txt = '-size %d%s' % (v, unit)
            want = 'Test(Size(Equal(%s(%d))))' % (node, v)
            if v <= u64max:
                yield dict(op='parse', input=txt, expect=want, bad=(lambda g, want=want: g[0] != 'OK' or g[2] != want))
            else:
                yield dict(op='parse', input=txt, expect='rejected', bad=lambda g: g[0] == 'OK')
    # signs with every size unit, unknown unit letters
    for unit, node in (('c', 'Byte'), ('w', 'Word'), ('b', 'Block'), ('k', 'KiloByte'), ('M', 'MegaByte'), ('G', 'GigaByte'), ('T', 'TeraByte'), ('', 'Block')):
        for pre, cmp_ in (('+', 'GreaterThan'), ('-', 'LesserThan')):
            for digits, v in (('7', 7), ('007', 7), ('36028797018963968', 2 ** 55)):
                want = 'Test(Size(%s(%s(%d))))' % (cmp_, node, v)
                yield dict(op='parse', input='-size %s%s%s' % (pre, digits, unit), expect=want, bad=(lambda g, want=want: g[0] != 'OK' or g[2] != want))
    for bad_unit in ('K', 'm', 'g', 't', 'kb', 'B', 'x', 'kk'):
        yield dict(op='parse', input='-size 3%s' % bad_unit, expect='rejected', bad=lambda g: g[0] == 'OK')
    # time tests: keyword -> field and default unit, suffix -> unit, signs, leading zeros, range
    for kw, node, dflt in (('-atime', 'AccessTime', 'Day'), ('-amin', 'AccessTime', 'Minute'), ('-ctime', 'ChangeTime', 'Day'), ('-cmin', 'ChangeTime', 'Minute'),
                           ('-mtime', 'ModifyTime', 'Day'), ('-mmin', 'ModifyTime', 'Minute')):
        for suffix, unit in (('', dflt), ('s', 'Second'), ('m', 'Minute'), ('h', 'Hour'), ('d', 'Day')):
            for pre, cmp_ in (('', 'Equal'), ('+', 'GreaterThan'), ('-', 'LesserThan')):
                for digits, v in (('0', 0), ('5', 5), ('005', 5), (str(u64max), u64max), (str(u64max + 1), u64max + 1)):
                    txt = '%s %s%s%s' % (kw, pre, digits, suffix)
                    if v <= u64max:
                        want = 'Test(%s(%s(%s(%d))))' % (node, cmp_, unit, v)
                        yield dict(op='parse', input=txt, expect=want, bad=(lambda g, want=want: g[0] != 'OK' or g[2] != want))
                    else:
                        yield dict(op='parse', input=txt, expect='rejected', bad=lambda g: g[0] == 'OK')
        for bad_unit in ('x', 'D', 'w', 'y', 'ms', 'S', 'M'):
            for digits in ('3', str(u64max), str(u64max // 7 + 1), str(u64max // 365 + 1)):
                yield dict(op='parse', input='%s %s%s' % (kw, digits, bad_unit), expect='rejected (never a panic)', bad=lambda g: g[0] in ('OK', 'PANIC'))
    # file types: letter table, order and repeats kept
    for arg, want in (('f', '[File]'), ('d', '[Directory]'), ('l', '[Link]'), ('b', '[Block]'), ('c', '[Character]'), ('p', '[Pipe]'), ('s', '[Socket]'),
                      ('f,d', '[File, Directory]'), ('d,f', '[Directory, File]'), ('s,p,l', '[Socket, Pipe, Link]'), ('f,f', '[File, File]')):
        w2 = 'Test(Type(%s))' % want
        yield dict(op='parse', input='-type ' + arg, expect=w2, bad=(lambda g, w2=w2: g[0] != 'OK' or g[2] != w2))
    for arg in ('x', 'F', 'fd', 'f,', ',f', 'f,,d', 'D'):
        yield dict(op='parse', input='-type ' + arg, expect='rejected', bad=lambda g: g[0] == 'OK')
    for v in (0, 3, u32max, u32max + 1):
        txt = '-threads %d -true' % v
        if v <= u32max:
            want = 'RunOptions { depth: false, threads: Some(%d) }' % v
            yield dict(op='parse', input=txt, expect=want, bad=(lambda g, want=want: g[0] != 'OK' or g[1] != want))
        else:
            yield dict(op='parse', input=txt, expect='rejected', bad=lambda g: g[0] == 'OK')


def family_matchers():
    """C11: two or three name tests with patterns that collide under careless keying (case, suffixes, separators, escapes): the
    number of matcher definitions equals the number of distinct (pattern, case-insensitivity) requests, and every reference in
    the body names a definition whose pattern and matcher kind are those of the request"""
    import itertools
    pats = ['a', 'A', 'a*', 'a/i', 'a:i', 'ai', 'a\\b', 'a\\\\b', 'a"b', '[a]', 'a b']
    kws = [('-name', False), ('-iname', True)]
    reqs = [(kw, ci, p) for p in pats for (kw, ci) in kws]

    def qt(p):
        return "'%s'" % p

    def kind(p, ci):
        g = any(c in p for c in '?*[')
        return ('fnmatch' if g else 'streq') + ('-ci' if ci else '')
    for a, b in itertools.product(reqs, repeat=2):
        inp = '%s %s -o %s %s' % (a[0], qt(a[2]), b[0], qt(b[2]))
        distinct = len({(a[2], a[1]), (b[2], b[1])})

        def bad(g, a=a, b=b, distinct=distinct):
            if g[0] != 'OK':
                return False
            prog = g[1]
            defs = re.findall(r'\(%lf3:match:(\d+) \(lambda \(%lf3:str:\d+\) \(([a-z-]+)\? "((?:[^"\\]|\\.)*)" %lf3:str:\d+\)\)\)', prog)
            if len(defs) != distinct:
                return True
            refs = re.findall(r'\(call-with-name %lf3:match:(\d+)\)', prog)
            if len(refs) != 2:
                return True
            bydef = {d[0]: (d[1], d[2]) for d in defs}
            for (kw, ci, p), ref in zip((a, b), refs):
                if ref not in bydef or bydef[ref] != (kind(p, ci), _scheme_esc(p)):
                    return True
            return False
        yield dict(op='compile', input=inp, expect='%d matcher definition(s); each reference names the definition of its own pattern, case and kind' % distinct, bad=bad)


def family_clock():
    """C15 (bounded): the second embedded by a time test lies within the compile call, also for a second compile call made more than a
    second after the first one in the same process"""
    def bad(g):
        if g[0] != 'OK' or len(g) < 4:
            return False
        t0, t1 = int(g[1]), int(g[2])
        secs = [int(x) for x in re.findall(r'\(quotient \(- (\d+) \(', g[3])]
        return not secs or any(not (t0 <= s <= t1) for s in secs)
    yield dict(op='timed', input='-mmin -5', expect='embedded second within [start, end] of the compile call', bad=bad)
    yield dict(op='sleep', input='1200', expect='', bad=lambda g: False)
    yield dict(op='timed', input='-atime +1 -o -cmin 3', expect='embedded second within [start, end] of the compile call', bad=bad)
    yield dict(op='sleep', input='1100', expect='', bad=lambda g: False)
    yield dict(op='timed', input='-mtime -2', expect='embedded second within [start, end] of the compile call', bad=bad)
    # … and after a compilation that was refused half-way (a time test before an unsupported primary), and after a rejected input
    yield dict(op='timed', input='-mmin -5 -user root', expect='refused', bad=lambda g: False)
    yield dict(op='sleep', input='1100', expect='', bad=lambda g: False)
    yield dict(op='timed', input='-amin +1', expect='embedded second within [start, end] of the compile call', bad=bad)
    yield dict(op='timed', input='-mmin -5 -o -nosuch', expect='rejected', bad=lambda g: False)
    yield dict(op='timed', input='-cmin -7 -printf "%Z"', expect='refused', bad=lambda g: False)
    yield dict(op='sleep', input='1100', expect='', bad=lambda g: False)
    yield dict(op='timed', input='-cmin -7 -o -mtime 0', expect='embedded second within [start, end] of the compile call', bad=bad)


def family_determinism():
    """the same input compiled many times in one process (every HashMap instance has its own random hash keys)"""
    inputs = ['-name a -o -iname a -o -name b -o -iname b', '( -name *.log -o -ipath *.log ) -fprint found.txt',
              '-name core -o -iname core', '-fprint a -o -fprint b -o -fprint0 a -o -print0 -o -fprint c',
              '-name x -o -name y -o -name z -o -iname x -o -path x -o -ipath x',
              '-name a -fprint out -o -name b -fprint ./out', '-fprint a -fprint ./a -fprint a/ -fprint A -fprint a', '-fprint0 out -o -fprint0 ./out -o -fprint out']
    for inp in inputs:
        yield dict(op='compile', input=inp, repeat=40, expect='byte-identical programs and equal tables on every compilation',
                   bad=lambda gs: len(set(tuple(g) for g in gs)) > 1)


# ------------------------------------------------------------------------------------------------
# generated families: all small expressions over a few atoms, with what the property demands of each
# (used only to look for a concrete failing input once the verifier has reported or could not decide an obligation)
# ------------------------------------------------------------------------------------------------
def gen_exprs(atoms):
    """atoms: list of (text, flags dict) -> (text, merged flags) for: atoms, negated atoms, all binary combinations of two
    atoms under -a / -o / , / juxtaposition, their negations, and every combination of such a pair with a third atom on
    either side (about 7k expressions for 6 atoms)"""
    def merge(a, b):
        return {k: a.get(k, False) or b.get(k, False) for k in set(a) | set(b)}
    ops = (' -a ', ' -o ', ' , ', ' ')
    out = [(t, dict(f)) for t, f in atoms] + [('! ' + t, dict(f)) for t, f in atoms]
    pairs = [(lt + op + rt, merge(lf, rf)) for (lt, lf) in atoms for (rt, rf) in atoms for op in ops]
    out += pairs + [('! ( %s )' % t, f) for t, f in pairs]
    for (pt, pf) in pairs:
        for (at, af) in atoms:
            for op in ops:
                out.append(('( %s )%s%s' % (pt, op, at), merge(pf, af)))
                out.append(('%s%s( %s )' % (at, op, pt), merge(pf, af)))
    return out


def family_wrap():
    atoms = [('-true', {}), ('-false', {}), ('-name x', {}), ('-print', {'action': True}), ('-quit', {'action': True}),
             ('-fprint f', {'action': True})]
    for text, fl in gen_exprs(atoms):
        act = fl.get('action', False)
        yield dict(op='compile', input=text, expect='implicit print iff no action (here: %s)' % ('action present' if act else 'no action'),
                   bad=(lambda g, act=act: g[0] == 'OK' and (('(print-relative-path)' in g[1]) == act)))


def policy_body(prog):
    m = re.search(r'\(lipe-getopt-client-mount-path\)\n        \(lambda \(\) (.*)\)\n        \(lipe-getopt-required-attrs\)', prog, re.S)
    return m.group(1) if m else None


def family_wrap_body():
    """C09: for an expression without an action the policy body is exactly (and E (print-relative-path)), where E is the text the
    same expression compiles to as the left operand of an explicit `-a -quit` (that one has an action, so nothing is added):
    stacked and nested negations, all operators, through the parser and on directly built trees"""
    def bad(g, g2):
        if g[0] != 'OK' or g2[0] != 'OK':
            return False
        b, b2 = policy_body(g[1]), policy_body(g2[1])
        if b is None or b2 is None or not (b2.startswith('(and ') and b2.endswith(' (lipe-scan-break 0))')):
            return b is None
        e = b2[len('(and '):-len(' (lipe-scan-break 0))')]
        return b != '(and ' + e + ' (print-relative-path))'
    atoms = ['-true', '-false', '-name x', '-size +1k']
    exprs = list(atoms)
    for a in atoms:
        exprs += ['! ' + a, '! ! ' + a, '! ! ! ' + a, '! ! ! ! ' + a, '! ( ! ' + a + ' )', '( ! ! ' + a + ' )']
    for a in atoms:
        for b_ in atoms:
            for op in (' -a ', ' -o ', ' , ', ' '):
                pair = a + op + b_
                exprs += [pair, '! ( ' + pair + ' )', '! ! ( ' + pair + ' )', '! ' + a + op + '! ' + b_, '! ! ' + a + op + b_, a + op + '! ! ' + b_,
                          '( ' + pair + ' ) -o ' + a, a + ' , ( ' + pair + ' )']
    for e in exprs:
        yield dict(op='compile', input=e, also=('compile', '( ' + e + ' ) -a -quit'), expect='body = (and E (print-relative-path)) with E the text of the expression itself', bad=bad)
    leaves = ['Test(True)', 'Test(False)', 'Test(Name("x"))']
    trees = list(leaves)
    for l in leaves:
        trees += ['Not(%s)' % l, 'Not(Not(%s))' % l, 'Not(Not(Not(%s)))' % l, 'Not(Not(Not(Not(%s))))' % l]
        for r in leaves:
            for op in ('And', 'Or', 'List'):
                trees += ['%s(%s, %s)' % (op, l, r), 'Not(Not(%s(%s, %s)))' % (op, l, r), '%s(Not(Not(%s)), %s)' % (op, l, r), '%s(%s, %s(%s, %s))' % (op, l, op, r, l)]
    for t in trees:
        yield dict(op='ast', input=t, also=('ast', 'And(%s, Action(Quit))' % t), expect='body = (and E (print-relative-path)) with E the text of the tree itself', bad=bad)


def family_grammar(n=None):
    """C03 / C17 (bounded): grammar-aware generation — `n` pseudo-random expressions (fixed seed VERIF_SEED) over every keyword the
    parser knows, operators and parentheses, with numeric arguments drawn from boundary values (0, 2^31, 2^32, 2^53, 2^55, 2^63,
    2^64 ± 1, 10^30, leading zeros, 40-digit runs), octal and symbolic modes of every length, format strings mixing every
    directive letter, escapes and octal codes, and words over the hostile alphabet. bad = a panic (and, for C17, any difference
    between the two builds)."""
    import random
    if n is None:
        n = 200000 if TIER == 'thorough' else 20000
    rnd = random.Random(int(os.environ.get('VERIF_SEED', '0') or 0) * 7919 + 17)
    nums = [0, 1, 7, 8, 9, 255, 256, 511, 512, 4095, 4096, 65535, 65536, 2 ** 24, 2 ** 31 - 1, 2 ** 31, 2 ** 32 - 1, 2 ** 32, 2 ** 32 + 1, 2 ** 53, 2 ** 54, 2 ** 55 - 1,
            2 ** 55, 2 ** 55 + 1, 2 ** 63 - 1, 2 ** 63, 2 ** 64 - 1, 2 ** 64, 2 ** 64 + 1, 10 ** 30, int('9' * 40)]
    words = ['x', 'a*', '[ab]?', 'a"b', "it's", 'café', '€\U0001F600', 'a\\b', '{mdt}', '~a', '%s', 'user.attr', 'lustre', 'out.txt', '/tmp/f', 'x' * 60, 'é' * 48, '-', '--', '(', ')a', ',', '!', '0', '-1']

    def num():
        v = rnd.choice(nums) + rnd.choice((0, 0, 0, 1, -1 if rnd.random() < .5 else 0))
        v = max(v, 0)
        return rnd.choice(('', '', '', '+', '-')) + rnd.choice(('', '', '0', '000')) + str(v)

    def word():
        w = rnd.choice(words)
        if any(c in w for c in ' ()\n') or w[:1] in '"\'':
            return ("'%s'" % w) if "'" not in w else ('"%s"' % w)
        return w if rnd.random() < .7 else (("'%s'" % w) if "'" not in w else ('"%s"' % w))

    def mode():
        r = rnd.random()
        if r < .45:
            return ''.join(rnd.choice('01234567') for _ in range(rnd.choice((1, 2, 3, 3, 4, 4, 5, 6, 10, 11, 12, 13, 16, 22, 23, 30))))
        cl = []
        for _ in range(rnd.choice((1, 1, 2, 3, 4))):
            cl.append(''.join(rnd.sample('ugoa', rnd.choice((0, 1, 1, 2, 3)))) + rnd.choice('+-=') + ''.join(rnd.sample('rwxXst', rnd.choice((0, 1, 2, 3)))))
        return ','.join(cl)

    def fmt():
        out = []
        for _ in range(rnd.choice((0, 1, 2, 3, 5, 8))):
            r = rnd.random()
            if r < .35:
                out.append('%' + rnd.choice('%abcdDfFgGhHiklmMnpPsStuUyYZ'))
            elif r < .45:
                out.append('%' + rnd.choice('ACT') + rnd.choice('@HIklMprSTZ+XaAbBcdDhjmUwWxyY"~\\'))
            elif r < .5:
                out.append('%{' + rnd.choice(('fid', 'projid', 'mirror-count', 'stripe-count', 'stripe-size', 'xattr:user.a', 'xattr:', 'xattr:a"b', 'nosuch')) + '}')
            elif r < .75:
                out.append('\\' + rnd.choice(('a', 'b', 'c', 'f', 'n', 'r', 't', 'v', '0', '\\', '1', '12', '123', '1234', '377', '400', '777', '8', 'x', 'q')))
            else:
                out.append(rnd.choice(('a', 'hello', '~', '~a', '"', '%', '\\', ' ', 'é', '{}', ')')))
        f = ''.join(out)
        return ('"%s"' % f) if '"' not in f else (("'%s'" % f) if "'" not in f else 'f')
    cmp32 = ['-uid', '-gid', '-inum', '-mirror-count', '-stripe-count', '-links', '-threads', '-maxdepth', '-mindepth']
    times = ['-atime', '-mtime', '-ctime', '-amin', '-mmin', '-cmin']
    strs = ['-name', '-iname', '-path', '-ipath', '-pool', '-xattr', '-regex', '-iregex', '-user', '-group', '-fstype', '-samefile', '-lname', '-ilname', '-anewer',
            '-cnewer', '-mnewer', '-fprint', '-fprint0', '-fls']
    bare = ['-empty', '-executable', '-readable', '-writable', '-true', '-false', '-nouser', '-nogroup', '-print', '-print0', '-ls', '-quit', '-prune',
            '-print-file-fid', '-depth', '-xdev', '-notanoption', 'stray']

    def primary():
        r = rnd.random()
        if r < .2:
            return rnd.choice(cmp32) + ' ' + num()
        if r < .3:
            return rnd.choice(times) + ' ' + num() + rnd.choice(('', '', '', 's', 'm', 'h', 'd', 'w', 'y', 'x'))
        if r < .42:
            return '-size ' + num() + rnd.choice(('', '', 'c', 'w', 'b', 'k', 'M', 'G', 'T', 'K', 'kb'))
        if r < .55:
            return '-perm ' + rnd.choice(('', '', '-', '/', '+')) + mode()
        if r < .62:
            return '-type ' + ','.join(rnd.choice('bcdpflsDx') for _ in range(rnd.choice((1, 1, 2, 3, 7))))
        if r < .78:
            return rnd.choice(strs) + ' ' + word()
        if r < .82:
            return '-xattr-match ' + word() + ' ' + word()
        if r < .9:
            return rnd.choice(('-printf ', '-fprintf out ')) + fmt()
        return rnd.choice(bare)

    def expr(d):
        r = rnd.random()
        if d <= 0 or r < .4:
            return primary()
        if r < .5:
            return rnd.choice(('! ', '-not ')) + expr(d - 1)
        if r < .6:
            return '( ' + expr(d - 1) + ' )'
        return expr(d - 1) + rnd.choice((' ', ' -a ', ' -and ', ' -o ', ' -or ', ' , ')) + expr(d - 1)
    seen = set()
    while len(seen) < n:
        e = expr(rnd.choice((0, 1, 2, 3, 4)))
        if e in seen or len(e.encode()) >= 4096:
            continue
        seen.add(e)
        yield dict(op='compile', input=e, expect='a program or an error value, never a panic', bad=lambda g: g[0] == 'PANIC')


def family_grammar_structure():
    """the grammar-generated expressions again, with the structural demands every accepted one must meet: the program reads as
    Scheme (independent reader: strings terminated, known escapes, no comment, balanced), the let* header binds each generated name
    once and the body mentions bound names only, frame tags are the keys of the reported table, and plain mode reports no table"""
    def bad(g):
        if g[0] != 'OK':
            return False
        try:
            scheme_read(g[1])
        except SchemeSyntax:
            return True
        return program_defects(g[1], g[2] if len(g) > 2 else '') is not None
    for c in family_grammar(n=200000 if TIER == 'thorough' else 6000):
        yield dict(op='compile', input=c['input'], expect='reads as Scheme; names bound once and before use; frame tags = table keys', bad=bad)


def reference_tree(words):
    """reference reading of a word sequence by the find grammar (the property statement of C01/C09: `!` binds tighter than AND
    (juxtaposition, -a, -and), AND tighter than OR (-o, -or), OR tighter than `,`; binary operators associate to the left;
    parentheses group without leaving a node). Returns the tree in `{:?}` notation without blanks, or None when the sequence is
    not a sentence."""
    prim = {'-true': 'Test(True)', '-false': 'Test(False)', '-print': 'Action(Print)', '-quit': 'Action(Quit)', '-empty': 'Test(Empty)'}
    pos = [0]

    class Bad(Exception):
        pass

    def peek():
        return words[pos[0]] if pos[0] < len(words) else None

    def eat():
        pos[0] += 1
        return words[pos[0] - 1]

    def unary():
        w = peek()
        if w == '!':
            eat()
            return 'Not(%s)' % unary()
        if w == '(':
            eat()
            t = lst()
            if peek() != ')':
                raise Bad()
            eat()
            return t
        if w in prim:
            return prim[eat()]
        raise Bad()

    def conj():
        t = unary()
        while True:
            w = peek()
            if w in ('-a', '-and'):
                eat()
                t = 'And(%s,%s)' % (t, unary())
            elif w in prim or w in ('!', '('):
                t = 'And(%s,%s)' % (t, unary())
            else:
                return t

    def disj():
        t = conj()
        while peek() in ('-o', '-or'):
            eat()
            t = 'Or(%s,%s)' % (t, conj())
        return t

    def lst():
        t = disj()
        while peek() == ',':
            eat()
            t = 'List(%s,%s)' % (t, disj())
        return t
    try:
        t = lst()
        if pos[0] != len(words):
            return None
        return t
    except Bad:
        return None


def family_precedence(maxlen=None):
    """C09 / C01 (front end, bounded): every word sequence up to a length bound over { ( ) ! , -a -o -true -print } plus sampled longer
    ones with the synonyms -and / -or: the parser accepts exactly the sentences of the grammar and returns the reference tree"""
    import itertools, random
    if maxlen is None:
        maxlen = 6 if TIER == 'thorough' else 5
    alpha = ['(', ')', '!', ',', '-a', '-o', '-true', '-print']

    def case(words):
        want = reference_tree(words)

        def bad(g, want=want):
            if g[0] == 'PANIC':
                return True
            if want is None:
                return g[0] == 'OK'
            if g[0] != 'OK':
                return True
            got = re.sub(r'\s+', '', g[2]).replace(',)', ')')
            return got != want
        return dict(op='parse', input=' '.join(words), expect=('the tree %s' % want) if want else 'rejected as a whole', bad=bad)
    for n in range(1, maxlen + 1):
        for ws in itertools.product(alpha, repeat=n):
            yield case(list(ws))
    rnd = random.Random(5)
    alpha2 = alpha + ['-and', '-or', '-false', '-quit', '-empty', '!', '(', ')']
    for _ in range(4000):
        yield case([rnd.choice(alpha2) for _ in range(rnd.choice((7, 8, 9, 10, 12)))])


def family_sequence():
    """C15: a compilation does not depend on what the process compiled before — A, then B, then A again, then C, then A again (all
    ordered pairs A, B out of twelve inputs that differ in output mode, matchers, printers, time tests and refusal): the three
    answers for A are identical (clock normalised)"""
    inputs = ['-name a -print', '-name a -print0', '-print', '-fprint f', '-name a -o -name b', '-iname a -fprint0 f', '-printf "%p\\n"', '-printf "%p"',
              '-true', '-name a -user u', '-type f,d -size +1k', '! ( -name a -o -print0 )',
              # front end: options after the start of the expression, rejected inputs, every argument reader
              '-name core -threads 4', '-true -depth', '-threads 2 -name a ! -threads 9 -depth', '-name a -o', '-perm -u+rw,g=r -mmin -5', '-printf "%p %s\\n" -size -3M',
              '-nosuch', '-uid +7 -links 2 -xattr-match a b']
    norm = lambda g: [re.sub(r'\(- \d{9,12} \(', '(- NOW (', x) for x in g]
    for a in inputs:
        for b in inputs:
            if a == b:
                continue
            c = inputs[(inputs.index(b) + 5) % len(inputs)]
            yield dict(op='restart', input='', also3=(('compile', a), ('compile', b), ('compile', a), ('compile', c), ('compile', a)),
                       expect='in a fresh process: the same answer for the first, third and fifth compilation (the same input `%s`)' % a,
                       bad=lambda g0, g, g2, g3, g4, g5: not (norm(g) == norm(g3) == norm(g5)))
    # state that leaks a little with every refused input: 300 refused inputs between two compilations of the same text
    refused = ['( )', '( ( -true -o ) )', '( ! )', '( -name', '( ( ( -nosuch ) ) )', '-perm 99999', '-size 3K', '! ! (', '( -true , )', '-printf "%Z" (']
    for a in ('( -name a -o ( -print0 ) )', '( ( ( -true ) ) ) -threads 2', '-name a -print', '! ( -size +1k -a ( -uid 3 -o -mmin -5 ) )'):
        filler = tuple(('compile', refused[k % len(refused)]) for k in range(300))
        yield dict(op='restart', input='', also3=(('compile', a),) + filler + (('compile', a),),
                   expect='the same answer for `%s` before and after 300 refused inputs in the same process' % a,
                   bad=lambda *gs: norm(gs[1]) != norm(gs[-1]))


def family_structure():
    """C09 (and the operand order C02 relies on): the policy body of a tree is the composition of the texts of its operands, in
    the order written — (and L R) for AND and `,`, (or L R), (not X) — wrapped as (and E (print-relative-path)) exactly when it holds
    no action; all trees of depth <= 3 over seven leaves and four operators, built directly (generated ids normalised)"""
    leaves = [('Test(True)', '#t', False), ('Test(False)', '#f', False), ('Test(Name("x"))', '(call-with-name %lf3:match:N)', False), ('Test(Empty)', '(empty)', False),
              ('Action(Print)', '(call-with-relative-path %lf3:print:N)', True), ('Action(Quit)', '(lipe-scan-break 0)', True),
              ('Action(PrintNull)', '(call-with-relative-path %lf3:print:N)', True)]
    ops = [('And', 'and'), ('Or', 'or'), ('List', 'and')]
    trees = list(leaves)
    trees += [('Not(%s)' % t, '(not %s)' % e, a) for t, e, a in leaves]
    lvl1 = list(trees)
    for o, so in ops:
        trees += [('%s(%s, %s)' % (o, t1, t2), '(%s %s %s)' % (so, e1, e2), a1 or a2) for t1, e1, a1 in lvl1 for t2, e2, a2 in lvl1]
    core = [leaves[i] for i in (0, 1, 2, 4, 5)]
    pairs = [('%s(%s, %s)' % (o, t1, t2), '(%s %s %s)' % (so, e1, e2), a1 or a2) for o, so in ops for t1, e1, a1 in core for t2, e2, a2 in core]
    for o, so in ops:
        for (t1, e1, a1) in pairs:
            for (t2, e2, a2) in core:
                trees.append(('%s(%s, %s)' % (o, t1, t2), '(%s %s %s)' % (so, e1, e2), a1 or a2))
                trees.append(('%s(%s, %s)' % (o, t2, t1), '(%s %s %s)' % (so, e2, e1), a1 or a2))
                trees.append(('Not(%s(%s, %s))' % (o, t1, t2), '(not (%s %s %s))' % (so, e1, e2), a1 or a2))
    for t, e, act in trees:
        want = e if act else '(and %s (print-relative-path))' % e

        def bad(g, want=want):
            if g[0] != 'OK':
                return g[0] == 'CERR'
            b = policy_body(g[1])
            return b is None or re.sub(r'%lf3:(match|print):\d+', r'%lf3:\1:N', b) != want
        yield dict(op='ast', input=t, expect='policy body %s' % want, bad=bad)


def family_ast_table():
    """C10 on directly built trees: pairs of output actions — file names among them the empty string and a blank, which the parser cannot
    produce — compile to a program whose reported table lists exactly the distinct (destination, terminator) pairs, and plain mode
    (two newline-terminated stdout actions) reports none"""
    nl = 'Special(Newline)'
    acts = [('Action(Print)', "Stdout(Some('\\n'))", False), ('Action(PrintNull)', "Stdout(Some('\\0'))", True),
            ('Action(PrintFormatted([Literal("x")]))', 'Stdout(None)', True), ('Action(PrintFormatted([Literal("x"), %s]))' % nl, 'Stdout(None)', False)]
    for name in ('', 'a', ' '):
        q = '"%s"' % name
        acts += [('Action(FilePrint(%s))' % q, "File(%s, Some('\\n'))" % q, True), ('Action(FilePrintNull(%s))' % q, "File(%s, Some('\\0'))" % q, True),
                 ('Action(FilePrintFormatted(%s, [Literal("x")]))' % q, 'File(%s, None)' % q, True)]
    for (t1, d1, f1) in acts:
        for (t2, d2, f2) in acts:
            framed = f1 or f2
            want = sorted(set([d1, d2])) if framed else []

            def bad(g, want=want):
                if g[0] != 'OK':
                    return g[0] == 'CERR'
                vals = sorted(e.partition('=')[2] for e in (g[2] if len(g) > 2 else '').split(';') if e)
                return vals != want or program_defects(g[1], g[2] if len(g) > 2 else '') is not None
            yield dict(op='ast', input='And(%s, %s)' % (t1, t2), expect='table = %s' % (want or 'none (plain mode)'), bad=bad)


def family_ast_wrap():
    """C09 on directly built trees: a tree that holds an action — also an unusual one (an empty format, a file format, the fid printer,
    an action under `,` or in a dead branch) — gets no implicit print; a tree without one gets exactly one, at the end"""
    acts = ['Action(PrintFormatted([]))', 'Action(PrintFormatted([Literal("")]))', 'Action(FilePrintFormatted("f", []))', 'Action(PrintFid)', 'Action(Quit)',
            'Action(PrintNull)', 'Action(FilePrint(""))', 'Action(Print)']
    tests = ['Test(True)', 'Test(False)', 'Test(Name("x"))']
    trees = [(a, True) for a in acts] + [(t, False) for t in tests]
    for a in acts:
        for t in tests:
            trees += [('And(%s, %s)' % (t, a), True), ('Or(%s, %s)' % (a, t), True), ('List(%s, %s)' % (a, t), True), ('Not(%s)' % a, True),
                      ('And(Test(False), Not(Or(%s, %s)))' % (t, a), True)]
    for t1 in tests:
        for t2 in tests:
            trees += [('And(%s, %s)' % (t1, t2), False), ('Not(Or(%s, %s))' % (t1, t2), False), ('List(%s, Not(Not(%s)))' % (t1, t2), False)]
    for t, act in trees:
        def bad(g, act=act):
            if g[0] != 'OK':
                return False
            b = policy_body(g[1])
            if b is None:
                return True
            n = b.count('(print-relative-path)')
            return n != 0 if act else not (n == 1 and b.endswith(' (print-relative-path))') and b.startswith('(and '))
        yield dict(op='ast', input=t, expect='no implicit print (the tree holds an action)' if act else 'exactly one implicit print, at the end', bad=bad)


def family_refusal():
    atoms = [('-true', {}), ('-name x', {}), ('-print', {}), ('-regex r', {'bad': True}), ('-ls', {'bad': True}), ('nope', {'bad': True}),
             ('-printf "%p"', {}), ('-printf "%Z"', {'bad': True})]
    for text, fl in gen_exprs(atoms):
        bad = fl.get('bad', False)
        yield dict(op='compile', input=text, expect='refused' if bad else 'compiles',
                   bad=(lambda g, bad=bad: (g[0] == 'OK' and bad) or (g[0] == 'CERR' and not bad)))


def family_numbers():
    vals = [0, 1, 9, 2 ** 31 - 1, 2 ** 31, 2 ** 32 - 1]
    big = [2 ** 32, 2 ** 32 + 1, 2 ** 63, 2 ** 64 - 1]
    prims = [('-uid', 'uid', vals), ('-gid', 'gid', vals), ('-inum', 'ino', vals), ('-mirror-count', 'lov-mirror-count', vals),
             ('-stripe-count', 'lov-stripe-count', vals), ('-links', 'nlink', vals + big)]
    for kw, field, vs in prims:
        for v in vs:
            for pre, op in (('', '='), ('+', '>'), ('-', '<')):
                want = '(%s (%s) %d)' % (op, field, v)
                yield dict(op='compile', input='%s %s%d' % (kw, pre, v), expect=want, bad=(lambda g, want=want: g[0] == 'OK' and want not in g[1]))
    for n in (0, 1, 7, 4096, 2 ** 32 - 1):
        yield dict(op='compile', input='-threads %d -true' % n, expect='scan call ends with %d))' % n,
                   bad=(lambda g, n=n: g[0] == 'OK' and ('\n        %d))' % n) not in g[1]))
    # the requested thread count reaches the scan call whatever else the expression holds
    for n in (0, 1, 2, 8, 2 ** 32 - 1):
        for rest in ('-quit', '-print -quit', '! -quit', '-name a -o -quit', '-print0', '-fprint f', '-uid 1000 -print -quit', '-true , -quit', '-mmin -5', '-printf x'):
            for shape in ('-threads %d %s', '%s -threads %d'):
                inp = shape % ((n, rest) if shape.startswith('-threads') else (rest, n))
                yield dict(op='compile', input=inp, expect='scan call ends with %d))' % n, bad=(lambda g, n=n: g[0] == 'OK' and ('\n        %d))' % n) not in g[1]))


def family_panics():
    """long non-ASCII arguments for every string-taking primary: looks for a panic (bad = the call panicked)"""
    kws = ['-name', '-iname', '-path', '-ipath', '-regex', '-iregex', '-user', '-group', '-fstype', '-samefile', '-lname', '-ilname',
           '-anewer', '-cnewer', '-mnewer', '-pool', '-xattr', '-fprint', '-fprint0', '-fls']
    for kw in kws:
        for ch in ('\u00e9', '\u20ac', '\U0001F600'):
            for pad in range(0, 4):
                for n in (20, 30, 40, 44, 45, 46, 47, 48, 60, 80, 90, 100, 120):
                    arg = 'a' * pad + ch * n
                    yield dict(op='compile', input='%s %s' % (kw, arg), expect='a result or an error value, never a panic', bad=lambda g: g[0] == 'PANIC')
    for arg in ('\u00e9' * 70, 'x' * 46 + '\u00e9tat', '-' + 'x' * 46 + '\u00e9tat'):
        yield dict(op='parse', input=arg, expect='an error value, never a panic', bad=lambda g: g[0] == 'PANIC')


def program_defects(prog, table_text):
    """structure of an emitted program that every property about names and routing relies on: the let* header binds each generated
    name once; the policy body only mentions bound names; in framed mode every printer's tag is its index, is a one-byte character
    literal, and the set of tags is the set of keys of the reported table"""
    m = re.search(r'\(let\* \((.*?)\)\n  \(dynamic-wind', prog, re.S)
    if not m:
        return 'no let* header'
    header = m.group(1)
    binders = re.findall(r'\((%lf3:(?:match|print|port|mutex|frame):\d+) \(', header)
    if len(binders) != len(set(binders)):
        dup = sorted(set(b for b in binders if binders.count(b) > 1))
        return 'bound twice: %s' % ', '.join(dup[:3])
    body = prog[m.end():]
    for ref in re.findall(r'%lf3:(?:match|print|port|mutex|frame):\d+', body):
        if ref not in binders:
            return 'the body mentions %s, which is not bound' % ref
    framed = '(%lf3:frame:2 (lambda' in header
    table = {}
    for e in [e for e in (table_text or '').split(';') if e]:
        k, _, v = e.partition('=')
        table[int(k)] = v
    if framed:
        tags = {}
        for idx, lit in re.findall(r'\(%lf3:print:(\d+) \(lambda \(line\) \(%lf3:frame:2 line (#\\\S*?)\)\)\)', header):
            mm = re.fullmatch(r'#\\x([0-9a-f]+)', lit)
            if not mm:
                return 'printer %s carries the tag %s, not a character literal' % (idx, lit)
            tags[int(idx)] = int(mm.group(1), 16)
        for idx, tag in tags.items():
            if tag not in table:
                return 'printer %d frames with tag %d, which is not a key of the table %s' % (idx, tag, sorted(table)[:8])
        if len(set(tags.values())) != len(tags):
            return 'two printers frame with the same tag'
        if set(tags.values()) != set(table):
            return 'table keys %s are not the tags in use %s' % (sorted(table)[:8], sorted(set(tags.values()))[:8])
    elif table:
        return 'plain mode reports a destination table'
    return None


def family_long():
    """many generated names in one expression (ids past 0x1e, 0x7f, 0xff): n distinct name tests before -print0, k distinct -fprint
    files, and mixtures; every input stays under 4 KiB. bad = a panic, a defect of the program structure (see program_defects), a
    table that is not exactly the expected destinations, or a body reference that reaches another destination's printer"""
    def case(inp, dests):
        def bad(g, dests=dests):
            if g[0] == 'PANIC':
                return True
            if g[0] != 'OK':
                return False
            if program_defects(g[1], g[2] if len(g) > 2 else ''):
                return True
            table = {}
            for e in [e for e in (g[2] if len(g) > 2 else '').split(';') if e]:
                k, _, v = e.partition('=')
                table[int(k)] = v
            if sorted(table.values()) != sorted(set(dests)):
                return True
            refs = [int(x) for x in re.findall(r'\(call-with-relative-path %lf3:print:(\d+)\)', g[1])]
            return len(refs) != len(dests) or any(table.get(r) != d for r, d in zip(refs, dests))
        assert len(inp.encode()) < 4096, len(inp)
        return dict(op='compile', input=inp, expect='no panic; names bound once and before use; table = the %d distinct destination(s), each frame tag a key of it; '
                    'each action reaches its own destination' % len(set(dests)), bad=bad)
    stdout0 = "Stdout(Some('\\0'))"
    fdest = lambda i: 'File("f%d", Some(\'\\n\'))' % i
    for n in (0, 1, 13, 14, 15, 61, 62, 63, 64, 126, 127, 128, 129, 300):
        yield case(' '.join('-name a%d' % i for i in range(n)) + ' -print0', [stdout0])
    for k in (1, 2, 3, 27, 28, 29, 30, 31, 125, 126, 127, 128, 253, 254, 255, 256, 257, 300):
        yield case(' '.join('-fprint f%d' % i for i in range(k)), [fdest(i) for i in range(k)])
    for n, k in ((40, 50), (10, 20), (100, 60), (126, 3)):
        yield case(' '.join('-name a%d' % i for i in range(n)) + ' ' + ' '.join('-fprint f%d' % i for i in range(k)), [fdest(i) for i in range(k)])
    # nesting up to the bound of C03 (depth 64): work that doubles per level never returns (reported as a hang, treated like a panic)
    for d in (8, 16, 24, 32, 40, 48, 64):
        for inp in ('! ' * d + '-name x', '( ' * d + '-name x' + ' )' * d, '! ( ' * d + '-name x' + ' )' * d,
                    ''.join('! ( -name a%d -o ' % i for i in range(d)) + '-true' + ' )' * d, ''.join('( -name a%d -a ' % i for i in range(d)) + '-print0' + ' )' * d):
            if len(inp.encode()) < 4096:
                yield dict(op='compile', input=inp, expect='an answer (within 20 s), never a panic', bad=lambda g: g[0] == 'PANIC')
    # a printer first requested after the counter passed 255, with earlier printers live (and repeats of earlier destinations)
    yield case('-fprint f0 -fprint f1 ' + ' '.join('-name a%d' % i for i in range(127)) + ' -fprint f2 -fprint f0 -fprint f1', [fdest(0), fdest(1), fdest(2), fdest(0), fdest(1)])
    yield case('-fprint f0 ' + ' '.join('-iname a%d -fprint f%d' % (i, i + 1) for i in range(130)), [fdest(i) for i in range(131)])


AST_ATOMS = None


def ast_trees():
    """trees in the notation {:?} prints, all inside the domain of the compile contract (no option and no precedence nodes), most of
    them shapes the parser never builds: empty lists, out-of-range codes, every format field, odd characters, extreme counts"""
    fields = ['Percent', 'Access', "AccessFormatted('H')", 'DiskSizeBlocks', 'Change', "ChangeFormatted('Y')", 'Depth', 'DeviceNumber', 'Basename', 'FsType',
              'Group', 'GroupId', 'Parents', 'StartingPoint', 'InodeDecimal', 'DiskSizeKilos', 'SymbolicTarget', 'PermissionsOctal', 'PermissionsSymbolic',
              'Hardlinks', 'Name', 'NameWithoutStartingPoint', 'DiskSizeBytes', 'Sparseness', 'Modify', "ModifyFormatted('s')", 'User', 'UserId', 'Type',
              'TypeSymlink', 'SecurityContext', 'FileId', 'ProjectId', 'MirrorCount', 'StripeCount', 'StripeSize', 'XAttr("user.a")', 'XAttr("")', 'XAttr("a\\"b")']
    specials = ['Alarm', 'Backspace', 'Clear', 'Form', 'Newline', 'CarriageReturn', 'TabHorizontal', 'TabVertical', 'Null', 'Backslash'] + \
               ['Ascii(%d)' % n for n in (0, 1, 7, 34, 92, 126, 127, 128, 255, 256, 257, 511, 512, 1000, 32767, 55296, 65535)]
    out = []
    out += ['Test(Type([]))', 'Test(Type([File]))', 'Test(Type([File, File]))', 'Test(Type([Block, Character, Directory, Pipe, File, Link, Socket]))',
            'Not(Test(Type([])))', 'And(Test(Type([])), Action(Print))']
    for el in ([], ['Literal("")'], ['Literal("x")'], ['Literal("")', 'Literal("")']):
        out.append('Action(PrintFormatted([%s]))' % ', '.join(el))
        out.append('Action(FilePrintFormatted("out", [%s]))' % ', '.join(el))
        out.append('Action(FilePrintFormatted("", [%s]))' % ', '.join(el))
    for f in fields:
        out.append('Action(PrintFormatted([Field(%s), Special(Newline)]))' % f)
        out.append('Action(FilePrintFormatted("o", [Literal("a"), Field(%s)]))' % f)
    for ch in ('"', '\\\\', '~', '\\n', '\u00e9', ' ', '%', '\\0', '\\\''):
        for k in ('AccessFormatted', 'ChangeFormatted', 'ModifyFormatted'):
            out.append("Action(PrintFormatted([Field(%s('%s')), Special(Newline)]))" % (k, ch))
    for sp in specials:
        out.append('Action(PrintFormatted([Literal("a"), Special(%s)]))' % sp)
        out.append('Action(PrintFormatted([Special(%s), Special(Newline)]))' % sp)
    for k in ('Name', 'InsensitiveName', 'Path', 'InsensitivePath', 'Pool', 'Xattr'):
        for sv in ('', ' ', '\\0', 'a\\"b', 'a\\\\', '\u00e9' * 50):
            out.append('Test(%s("%s"))' % (k, sv))
            out.append('And(Test(%s("%s")), Action(PrintNull))' % (k, sv))
    out += ['Test(XattrMatch("", ""))', 'Test(XattrMatch("a\\"", "\\\\"))']
    for a in ('FilePrint', 'FilePrintNull', 'FileList'):
        for sv in ('', 'a\\"b', '\u00e9' * 50):
            out.append('Action(%s("%s"))' % (a, sv))
    for bits in (0, 0o777, 0o7777, 0o10000, 0o170000, 0o177777, 2 ** 31, 2 ** 32 - 1):
        for k in ('AtLeast', 'Any', 'Equal'):
            out.append('Test(Perm(%s(Permission(Mode(%d)))))' % (k, bits))
    big = [0, 1, 2 ** 24, 2 ** 24 + 1, 2 ** 54, 2 ** 63, 2 ** 64 - 1]
    for c in ('GreaterThan', 'LesserThan', 'Equal'):
        for v in big:
            for u in ('Byte', 'Word', 'Block', 'KiloByte', 'MegaByte', 'GigaByte', 'TeraByte'):
                out.append('Test(Size(%s(%s(%d))))' % (c, u, v))
            for u in ('Second', 'Minute', 'Hour', 'Day'):
                for k in ('AccessTime', 'ChangeTime', 'ModifyTime'):
                    out.append('Test(%s(%s(%s(%d))))' % (k, c, u, v))
            out.append('Test(Links(%s(%d)))' % (c, v))
        for v in (0, 1, 2 ** 31, 2 ** 32 - 1):
            for k in ('GroupId', 'InodeNumber', 'MirrorCount', 'StripeCount', 'UserId'):
                out.append('Test(%s(%s(%d)))' % (k, c, v))
    out += ['Action(DefaultPrint)', 'And(Action(DefaultPrint), Action(DefaultPrint))', 'Or(Action(DefaultPrint), Action(PrintNull))', 'Not(Action(DefaultPrint))',
            'List(Action(Quit), Action(Prune))', 'Action(PrintFid)', 'And(Action(PrintFid), Action(PrintNull))', 'Positional(XDev)', 'And(Test(True), Positional(XDev))']
    deep = 'Test(True)'
    for _ in range(64):
        deep = 'Not(%s)' % deep
    out.append(deep)
    chain = 'Test(Name("n0"))'
    for i in range(1, 130):
        chain = 'And(%s, Test(Name("n%d")))' % (chain, i)
    out.append('And(%s, Action(PrintNull))' % chain)
    return out


def family_ast():
    """C03 / C17 on trees handed to compile directly: never a panic (the debug/release comparison uses the same trees)"""
    for t in ast_trees():
        for opts in ('', 'RunOptions { depth: true, threads: Some(4294967295) }'):
            yield dict(op='ast', input=t + ('\t' + opts if opts else ''), expect='a program or an error value, never a panic', bad=lambda g: g[0] == 'PANIC')


def query_trees():
    """(notation, has an action, needs framed output) for trees of depth <= 3 over every kind of leaf and all five operators —
    option and precedence nodes included (C19 speaks about every tree the public types allow); the two expectations are computed
    here from the property statement, not from the code"""
    nl = 'Special(Newline)'
    leaves = [('Test(True)', False, False), ('Test(False)', False, False), ('Test(Name("x"))', False, False), ('Global(Depth)', False, False),
              ('Global(Threads(2))', False, False), ('Positional(XDev)', False, False),
              ('Action(Print)', True, False), ('Action(PrintNull)', True, True), ('Action(FilePrint("f"))', True, True), ('Action(FilePrintNull("f"))', True, True),
              ('Action(FilePrintFormatted("f", [Literal("x"), %s]))' % nl, True, True), ('Action(FilePrintFormatted("f", []))', True, True),
              ('Action(FileList("f"))', True, True), ('Action(FilePrint(""))', True, True), ('Action(FilePrintNull(""))', True, True), ('Action(FileList(""))', True, True),
              ('Action(FilePrintFormatted("", [%s]))' % nl, True, True), ('Action(FilePrint(" "))', True, True), ('Action(FilePrint("\\n"))', True, True),
              ('Action(List)', True, False), ('Action(Quit)', True, False), ('Action(Prune)', True, False),
              ('Action(PrintFid)', True, False), ('Action(DefaultPrint)', True, False),
              ('Action(PrintFormatted([]))', True, False), ('Action(PrintFormatted([%s]))' % nl, True, False), ('Action(PrintFormatted([Literal("a")]))', True, True),
              ('Action(PrintFormatted([%s, Literal("a")]))' % nl, True, True), ('Action(PrintFormatted([Field(Name), %s]))' % nl, True, False),
              ('Action(PrintFormatted([Literal("a"), Special(Null)]))', True, True), ('Action(PrintFormatted([%s, %s]))' % (nl, nl), True, False),
              ('Action(PrintFormatted([Literal("\\n")]))', True, True),
              # only the newline *escape* ends a record: the octal escape with the same code, or any other escape, does not
              ('Action(PrintFormatted([Literal("a"), Special(Ascii(10))]))', True, True), ('Action(PrintFormatted([Special(Ascii(10))]))', True, True),
              ('Action(PrintFormatted([Literal("a"), Special(Ascii(13))]))', True, True), ('Action(PrintFormatted([Literal("a"), Special(CarriageReturn)]))', True, True),
              ('Action(PrintFormatted([Special(Newline), Special(Ascii(0))]))', True, True), ('Action(PrintFormatted([Field(Name), Special(Ascii(266))]))', True, True)]
    un = ('Precedence', 'Not')
    bi = ('And', 'Or', 'List')
    out = list(leaves)
    for o in un:
        out += [('%s(%s)' % (o, t), a, f) for t, a, f in leaves]
    for o in bi:
        out += [('%s(%s, %s)' % (o, t1, t2), a1 or a2, f1 or f2) for t1, a1, f1 in leaves for t2, a2, f2 in leaves]
    pick = ('Test(True)', 'Test(False)', 'Global(Depth)', 'Action(Print)', 'Action(PrintNull)', 'Action(FilePrint("f"))', 'Action(FilePrint(""))', 'Action(PrintFormatted([Literal("a")]))')
    core = [l for l in leaves if l[0] in pick]
    assert len(core) == len(pick)
    for o1 in bi:
        for o2 in bi + un:
            for x in core:
                for y in core:
                    if o2 in un:
                        out.append(('%s(%s(%s), %s)' % (o1, o2, x[0], y[0]), x[1] or y[1], x[2] or y[2]))
                        out.append(('%s(%s, %s(%s))' % (o1, x[0], o2, y[0]), x[1] or y[1], x[2] or y[2]))
                        out.append(('%s(%s(%s(%s)), %s)' % (o1, o2, 'Not', x[0], y[0]), x[1] or y[1], x[2] or y[2]))
                    else:
                        for z in core:
                            out.append(('%s(%s(%s, %s), %s)' % (o1, o2, x[0], y[0], z[0]), x[1] or y[1] or z[1], x[2] or y[2] or z[2]))
                            out.append(('%s(%s, %s(%s, %s))' % (o1, x[0], o2, y[0], z[0]), x[1] or y[1] or z[1], x[2] or y[2] or z[2]))
    deep = ('Action(PrintNull)', True, True)
    for i in range(12):
        deep = ('%s(%s)' % (un[i % 2], deep[0]), True, True)
        out.append(deep)
    return out


def family_queries():
    """C19: 'contains an action' and 'needs framed output' on directly built trees"""
    for t, act, fr in query_trees():
        want = ['OK', 'true' if act else 'false', 'true' if fr else 'false']
        yield dict(op='query', input=t, expect='action() = %s, complex_frames() = %s' % (want[1], want[2]), bad=(lambda g, want=want: g[0] != 'PANIC' and g[:3] != want))


def family_units():
    """C19: unit tables and byte sizes"""
    for u, m in (('Byte', 1), ('Word', 2), ('Block', 512), ('KiloByte', 2 ** 10), ('MegaByte', 2 ** 20), ('GigaByte', 2 ** 30), ('TeraByte', 2 ** 40)):
        for n in (0, 1, 3, 2 ** 24 - 1, 2 ** 24, 2 ** 24 + 1, 2 ** 32, 2 ** 54, 2 ** 55, 2 ** 55 + 1, 2 ** 63, 2 ** 64 - 1):
            want = ['OK', str(m), str(n * m)]
            yield dict(op='units', input='%s(%d)' % (u, n), expect='mult = %d, byte_size = %d' % (m, n * m), bad=(lambda g, want=want: g[:3] != want))
    for u, m in (('Second', 1), ('Minute', 60), ('Hour', 3600), ('Day', 86400)):
        for n in (0, 1, 2 ** 64 - 1):
            want = ['OK', str(m)]
            yield dict(op='units', input='%s(%d)' % (u, n), expect='secs = %d' % m, bad=(lambda g, want=want: g[:2] != want))


def family_frames():
    """C10/C19 through the parser: framed output is selected exactly when some action writes to a file, is NUL-terminated or prints a
    format not ending in the newline escape — wherever that action sits (behind -false, right of -o, negated, in a ',' list)"""
    atoms = [('-true', {}), ('-false', {}), ('-print', {}), ('-quit', {}), ('-print0', {'fr': True}), ('-fprint f', {'fr': True}),
             ('-printf "x\\n"', {}), ('-printf x', {'fr': True}), ('-printf "x\\012"', {'fr': True})]
    for text, fl in gen_exprs(atoms):
        fr = fl.get('fr', False)

        def bad(g, fr=fr):
            if g[0] != 'OK':
                return False
            framed = '(%lf3:frame:2 (lambda' in g[1]
            return framed != fr or bool(g[2] if len(g) > 2 else '') != fr
        yield dict(op='compile', input=text, expect='framed output and a destination table' if fr else 'plain output and no destination table', bad=bad)


def family_renders():
    """C20: one compiled expression rendered several times with different device paths (among them the escaped spelling of the path
    just rendered, and a repeat): every rendering carries its own path, as the decoded value of the string after (lipe-scan, the
    rest of the program is the same in all of them, and the reported table does not change"""
    seqs = [['/mnt/a"b', '/mnt/a\\"b', '/mnt/a"b'], ['/dev/x\\y', '/dev/x\\\\y', '/'], ['/', '/', '/a'], ['/a', '/b', '/a', '/b'],
            ['/{mdt}', '/{options}', '/{policy}'], ['/a\\', '/a\\\\', '/a\\\\\\\\'], ['/"', '/\\"', '/\\\\\\"', '/"'], ['', '/', ''], ['/caf\u00e9', '/cafe', '/caf\u00e9'], ['/dev/mdt0', '/dev/mdt0/', '/dev//mdt0', '/dev/./mdt0', '/dev/mdt0/.'], ['./x', 'x', 'x/', 'x/.', 'x/../x'],
            ['/\u20ac', '/\u0100\u65e5', '/\U0001F600"'], ['/mnt/a \u2022 b', '/\u0122', '/\u015c\u4e22'],
            # long paths (a cap or a buffer boundary): 255/256, 4095/4096/4097 bytes, two that differ only in their last character
            ['/' + 'a' * 254, '/' + 'a' * 255, '/' + 'a' * 256], ['/' + 'a' * 4094, '/' + 'a' * 4095, '/' + 'a' * 4096],
            ['/' + 'd' * 4100 + '0', '/' + 'd' * 4100 + '1', '/' + 'd' * 4100 + '0'], ['/' + '\u00e9' * 2047 + 'x', '/' + '\u00e9' * 2048, '/' + '\u00e9' * 2049],
            ['/' + 'q' * 70000, '/' + 'q' * 70001]]
    for inp in ('-name x', '-print0 -o -fprint out', '-name "a\\"b" -print'):
        for paths in seqs:
            def bad(g, paths=paths):
                if g[0] != 'OK':
                    return False
                progs = g[2:2 + len(paths)]
                if len(progs) != len(paths) or g[1] != g[2 + len(paths)]:
                    return True
                rest = set()
                for pth, prog in zip(paths, progs):
                    lit = '(lipe-scan\n        "%s"\n' % _scheme_esc(pth)
                    if prog.count(lit) != 1:
                        return True
                    rest.add(prog.replace(lit, '(lipe-scan\n        DEVICE\n'))
                return len(rest) != 1
            yield dict(op='renders', input='\t'.join([inp] + paths), expect='each rendering carries its own device path; the table is unchanged', bad=bad)


class SchemeSyntax(Exception):
    pass


def scheme_read(prog):
    """an independent reader for the lexical syntax the emitted programs use: returns (skeleton, strings) where the skeleton is the
    program text with every string literal replaced by "" and `strings` are their decoded values, in order; raises SchemeSyntax
    on an unterminated string, an unknown escape, a comment, or unbalanced parentheses outside strings"""
    out, strings, i, depth = [], [], 0, 0
    n = len(prog)
    simple = {'\\': '\\', '"': '"', 'n': '\n', 't': '\t', 'a': '\a', 'b': '\b', 'f': '\f', 'r': '\r', 'v': '\v', '0': '\0'}
    while i < n:
        c = prog[i]
        if c == '"':
            i += 1
            cur = []
            while True:
                if i >= n:
                    raise SchemeSyntax('unterminated string')
                d = prog[i]
                if d == '"':
                    i += 1
                    break
                if d == '\\':
                    if i + 1 >= n:
                        raise SchemeSyntax('unterminated escape')
                    e = prog[i + 1]
                    if e in simple:
                        cur.append(simple[e]); i += 2
                    elif e == 'x':
                        m = re.match(r'([0-9a-fA-F]+);|([0-9a-fA-F]{2})', prog[i + 2:i + 12])
                        if not m:
                            raise SchemeSyntax('bad \\x escape')
                        cur.append(chr(int(m.group(1) or m.group(2), 16))); i += 2 + m.end()
                    else:
                        raise SchemeSyntax('unknown escape \\%s' % e)
                else:
                    cur.append(d); i += 1
            strings.append(''.join(cur))
            out.append('""')
        elif c == '#' and i + 1 < n and prog[i + 1] == '\\':
            m = re.match(r'#\\(x[0-9a-fA-F]+|[A-Za-z]+|.)', prog[i:], re.S)
            out.append(m.group(0)); i += m.end()
        elif c == ';':
            raise SchemeSyntax('comment outside a string')
        else:
            if c == '(':
                depth += 1
            elif c == ')':
                depth -= 1
                if depth < 0:
                    raise SchemeSyntax('unbalanced )')
            out.append(c); i += 1
    if depth != 0:
        raise SchemeSyntax('unbalanced parentheses')
    return ''.join(out), strings


def rust_str(sv):
    """a Rust string literal for the tree notation"""
    out = []
    for ch in sv:
        if ch in '\\"':
            out.append('\\' + ch)
        elif ch == '\n':
            out.append('\\n')
        elif ch == '\t':
            out.append('\\t')
        elif ch == '\r':
            out.append('\\r')
        elif ord(ch) < 32:
            out.append('\\u{%x}' % ord(ch))
        else:
            out.append(ch)
    return '"' + ''.join(out) + '"'


NONINTERFERENCE_REF = 'QZQ'


def family_noninterference():
    """C04 as stated: for every string-carrying primary and every user string over the hostile alphabet (exhaustive to length 2, some
    longer), the emitted program (a) reads as Scheme, (b) has exactly the structure of the program compiled with the benign string
    QZQ in the same place, and (c) its string literals decode to those of the benign program with QZQ replaced by the user string
    (tildes doubled where the literal is a format template). Trees are built directly, so the string reaches the back end unchanged."""
    import itertools
    # (the characters `* ? [` — and `'` for -xattr-match — select the pattern form of a matcher on purpose; they are not in the alphabet)
    alpha = ['"', '\\', '~', '%', '(', ')', ';', '#', '\n', '\x07', 'é', 'a', ' ', '{', '}', '\u0100', '\u20ac', '\u65e5', '\U0001F600', '\x7f', '\xa0', '\xff',
             '\u2022', '\u0122', '\u015c', '\u4e22', '\u017e', '\u0a0a']   # low byte 0x22, 0x5c, 0x7e, 0x0a: a cast to u8 would mistake them
    words = [''] + alpha + [a + b for a, b in itertools.product(alpha, repeat=2)] + \
            ['a"b\\', '\\"', '~a~%', '")) (lipe-scan-break 0) (("', '\\\\\\', '#\\"', '{mdt}', '{policy}"']
    nl = 'Special(Newline)'
    slots = ['Test(Name(@))', 'Test(InsensitiveName(@))', 'Test(Path(@))', 'Test(InsensitivePath(@))', 'Test(Pool(@))', 'Test(Xattr(@))',
             'Test(XattrMatch(@, "v"))', 'Test(XattrMatch("n", @))', 'Test(XattrMatch(@, "v*"))', 'Test(XattrMatch("n?[", @))', 'And(Test(Name(@)), Action(PrintNull))', 'And(Test(Pool(@)), Action(FilePrint("f")))',
             'Action(PrintFormatted([Literal(@), %s]))' % nl, 'Action(PrintFormatted([Field(Name), Literal(@)]))',
             'Action(PrintFormatted([Literal(@), Field(Name), Literal(@), %s]))' % nl,
             'Action(FilePrintFormatted("f", [Literal(@)]))', 'Action(PrintFormatted([Field(XAttr(@)), %s]))' % nl, 'And(Test(Name(@)), Test(Xattr(@)))',
             'Or(Test(Name(@)), Action(PrintFormatted([Literal(@)])))']
    ref = NONINTERFERENCE_REF

    def oracle(w):
        def bad(g, g2, w=w):
            if g[0] != 'OK' or g2[0] != 'OK':
                return g[0] != g2[0] and 'PANIC' not in (g[0], g2[0])   # accepted with one string and refused with the other
            try:
                sk, strs = scheme_read(g[1])
                sk2, strs2 = scheme_read(g2[1])
            except SchemeSyntax:
                return True
            if sk != sk2 or len(strs) != len(strs2):
                return True
            pos = [m.start() for m in re.finditer('""', sk2)]
            for k, (a, b) in enumerate(zip(strs, strs2)):
                template = sk2[:pos[k]].endswith('(format #f ')
                if a != b.replace(ref, w.replace('~', '~~') if template else w):
                    return True
            return (g[2] if len(g) > 2 else '').count('=') != (g2[2] if len(g2) > 2 else '').count('=')
        return bad
    for slot in slots:
        for w in words + ([] if ('XattrMatch' in slot and '*' not in slot and '?' not in slot) else ["'", "it's", "'\"'"]):
            yield dict(op='ast', input=slot.replace('@', rust_str(w)), also=('ast', slot.replace('@', rust_str(ref))),
                       expect='same structure as with the string QZQ; every literal decodes to its QZQ counterpart with the user string in place', bad=oracle(w))
    # the device path (also spellings a path normaliser would rewrite: it is user text, not a path to be interpreted)
    for w in words + ['/dev/mdt0/', '/dev//mdt0', '/dev/./mdt0', '/dev/mdt0/.', './x', 'x/../y', '//', '/.', '/a/', 'a//b/', '/../a']:
        yield dict(op='ast', input='Test(Name("n"))\t\t' + w, also=('ast', 'Test(Name("n"))\t\t' + ref),
                   expect='same structure as with the device QZQ; the device literal decodes to the path', bad=oracle(w))


def perm_forms(scheme_text):
    """(kind, mask, value) of the permission comparison in an emitted program"""
    m = re.search(r'\(not \(= \(logand \(mode\) (\d+)\) 0\)\)', scheme_text)
    if m:
        return ('any', int(m.group(1)), 0)
    m = re.search(r'\(= \(logand \(mode\) (\d+)\) (\d+)\)', scheme_text)
    if m:
        return ('masked', int(m.group(1)), int(m.group(2)))
    return None


TIER = 'quick'   # set by the engine: the thorough tier enumerates the exhaustive variants


def family_perm(full=None):
    """C08 (front end, bounded): the prefix of a -perm argument selects the check and nothing else — for every argument A, `-perm A`
    compares all twelve bits with a value V, `-perm -A` must be "all bits of V set" and `-perm /A` "some bit of V set", with the same V
    (all 4096 octal values in 3- and 4-digit spelling, all 315 single symbolic clauses, every two-clause list over a reduced
    alphabet); an octal argument denotes its octal value or, beyond the twelve permission bits or on a longer digit run, is rejected;
    symbolic lists without a `-` clause are also compared with chmod's rules (lists with `-` clauses: see the recorded finding F4)."""
    if full is None:
        full = TIER == 'thorough'

    def rel(arg, value=None, reject=False):
        def bad(g, g2, g3):
            if 'PANIC' in (g[0], g2[0], g3[0]):
                return True
            if reject:
                return g[0] == 'OK' or g2[0] == 'OK' or g3[0] == 'OK'
            if g[0] != 'OK':
                return value is not None or g2[0] == 'OK' or g3[0] == 'OK'
            f, f2, f3 = perm_forms(g[1]), perm_forms(g2[1]) if g2[0] == 'OK' else None, perm_forms(g3[1]) if g3[0] == 'OK' else None
            if f is None or f[0] != 'masked' or f[1] != 0o7777:
                return True
            v = f[2]
            if value is not None and v != value:
                return True
            return f2 != ('masked', v, v) or f3 != ('any', v, 0)
        return dict(op='compile', input='-perm ' + arg, also3=(('compile', '-perm -' + arg), ('compile', '-perm /' + arg)),
                    expect=('rejected under every prefix' if reject else
                            'no prefix: all twelve bits equal V%s; "-": (mode & V) = V; "/": (mode & V) != 0 — with the same V' % ('' if value is None else ' = %04o' % value)),
                    bad=bad)
    step = 1 if full else 1
    for v in range(0, 4096, step):
        yield rel('%04o' % v, v)
        if v < 512:
            yield rel('%03o' % v, v)
    for arg in ('10000', '17777', '40000000644', '37777777777', '40000000000', '77777777777', '100000000000', '7' * 12, '7' * 16, '1' + '0' * 21, '7' * 22, '4' + '0' * 30 + '644'):
        yield rel(arg, reject=True)
    for arg in ('00644', '0000644', '0' * 20 + '7'):
        yield dict(op='compile', input='-perm ' + arg, expect='its octal value, or rejected; never a panic',
                   bad=(lambda g, arg=arg: g[0] == 'PANIC' or (g[0] == 'OK' and perm_forms(g[1]) != ('masked', 0o7777, int(arg, 8)))))
    import itertools
    whos = [''.join(c) for k in (1, 2, 3, 4) for c in itertools.combinations('ugoa', k)]     # 15
    perms = [''.join(c) for k in (1, 2, 3) for c in itertools.combinations('rwx', k)]       # 7  -> 315 clauses
    wmask = lambda w: 0o777 if 'a' in w else sum(m for c, m in (('u', 0o700), ('g', 0o070), ('o', 0o007)) if c in w)
    pmask = lambda p: sum(m for c, m in (('r', 0o444), ('w', 0o222), ('x', 0o111)) if c in p)
    clauses = [(w, o, p) for w in whos for o in '+-=' for p in perms]
    for (w, o, p) in clauses:
        arg = w + o + p
        val = None if o == '-' else chmod(o, wmask(w), pmask(p), 0)
        yield rel(arg, val)
    # repeated and reordered letters denote the same sets
    for (w, o, p) in (('uu', '+', 'r'), ('g', '+', 'rr'), ('o', '+', 'ww'), ('u', '=', 'xx'), ('a', '+', 'wrw'), ('gug', '=', 'xrx'), ('oo', '+', 'xwr'), ('ug', '+', 'rwxrwx'),
                      ('aa', '=', 'rr'), ('ou', '+', 'xr'), ('g', '=', 'wwx')):
        yield rel(w + o + p, chmod(o, wmask(w), pmask(p), 0))
        yield rel('u=rwx,' + w + o + p, chmod(o, wmask(w), pmask(p), 0o700))
    # two -perm primaries under one operator: each keeps its own comparison (relational: the body of `P1 op P2` is the composition
    # of the bodies of P1 and P2 compiled alone)
    def inner(g):
        b = policy_body(g[1]) if g[0] == 'OK' else None
        if b and b.startswith('(and ') and b.endswith(' (print-relative-path))'):
            return b[len('(and '):-len(' (print-relative-path))')]
        return None
    prims = ['-perm /u+r', '-perm /g+r', '-perm -400', '-perm -040', '-perm 644', '-perm /022', '-perm -u+w,g+w']
    for p1 in prims:
        for p2 in prims:
            for opw, ops in ((' ', 'and'), (' -a ', 'and'), (' -o ', 'or'), (' , ', 'and')):
                def bad_pair(g, g1, g2, ops=ops):
                    if g[0] != 'OK' or g1[0] != 'OK' or g2[0] != 'OK':
                        return False
                    b, b1, b2 = inner(g), inner(g1), inner(g2)
                    return b is None or b1 is None or b2 is None or b != '(%s %s %s)' % (ops, b1, b2)
                yield dict(op='compile', input=p1 + opw + p2, also3=(('compile', p1), ('compile', p2)),
                           expect='(%s A B) with A, B the comparisons of the two primaries compiled alone' % ops, bad=bad_pair)
    small = [(w, o, p) for w in ('u', 'go', 'a') for o in '+-=' for p in ('r', 'wx', 'rwx')]
    pool = clauses if full else small
    for c1 in pool:
        for c2 in pool:
            arg = '%s%s%s,%s%s%s' % (c1 + c2)
            val = None
            if c1[1] != '-' and c2[1] != '-':
                val = chmod(c2[1], wmask(c2[0]), pmask(c2[2]), chmod(c1[1], wmask(c1[0]), pmask(c1[2]), 0))
            yield rel(arg, val)


def family_parse_refusal():
    """C12 (front end, bounded): every primary the target cannot express stays refused whatever its argument looks like (names that
    start with digits, pure numbers, quoted words with blanks, patterns), alone and inside small expressions; and the supported
    neighbours of those keywords keep compiling"""
    args = ['bob', 'root', '3com', '0day', '1000', '0', '42abc', "'42 is the answer'", '4294967296', 'lustre', '*.c', 'a/b', '-1', '+5', "'x y'", 'f', 'd', '007']
    unsupported = ['-user', '-group', '-fstype', '-regex', '-iregex', '-samefile', '-lname', '-ilname', '-anewer', '-cnewer', '-mnewer', '-fls']
    for kw in unsupported:
        for a in args:
            for shape in ('%s %s', '-true -o %s %s', '! %s %s', '-name x -a ( %s %s )', '%s %s -print', '-depth %s %s', '-threads 2 -depth -name x %s %s'):
                yield dict(op='compile', input=shape % (kw, a), expect='refused (or rejected), never compiled', bad=lambda g: g[0] == 'OK')
    for kw in ('-nouser', '-nogroup', '-ls', '-prune', '-xdev'):
        for shape in ('%s', '-true -o %s', '! %s', '-name x %s', '%s -print', '-depth %s', '-depth -name x %s -o -print', '-threads 4 -true -o %s'):
            yield dict(op='compile', input=shape % kw, expect='refused (or rejected), never compiled', bad=lambda g: g[0] == 'OK')
    for kw in ('-maxdepth', '-mindepth'):
        for a in ('0', '1', '3', '4294967295'):
            yield dict(op='compile', input='%s %s -true' % (kw, a), expect='refused (or rejected), never compiled', bad=lambda g: g[0] == 'OK')
    for ok in ('-uid 3', '-gid 0', '-name 3com', '-iname 0day', '-path 1000', '-pool 42abc', '-xattr 007', '-type f', '-newer x'):
        if ok.startswith('-newer'):
            continue
        yield dict(op='compile', input=ok, expect='compiles', bad=lambda g: g[0] != 'OK')


def family_option_nodes():
    """C12, outside the domain of the compile contract (the parser never leaves an option node in the tree, the public constructors
    can): a tree that holds an option node is never turned into a program — the pinned tree panics on it, which this family does
    not judge; silently emitting a constant for `-maxdepth` is what it looks for"""
    opts = ['Global(MaxDepth(1))', 'Global(MinDepth(2))', 'Global(Depth)', 'Global(Threads(3))']
    for o in opts:
        for shape in ('%s', 'And(Test(True), %s)', 'And(%s, Action(Print))', 'Or(Test(True), %s)', 'Not(%s)', 'List(%s, Test(Name("x")))', 'Or(And(Test(False), %s), Action(PrintNull))'):
            yield dict(op='ast', input=shape % o, expect='no program (an error value; the pinned tree panics)', bad=lambda g: g[0] == 'OK')


def family_ast_refusal():
    """C12 on directly built trees: a tree holding an unsupported primary, format directive or \\c is refused, every other tree of
    the family compiles"""
    bad_fields = ['Depth', 'DeviceNumber', 'FsType', 'SymbolicTarget', 'PermissionsSymbolic', 'TypeSymlink', 'SecurityContext']
    good_fields = ['Percent', 'Access', "AccessFormatted('H')", "AccessFormatted('@')", 'DiskSizeBlocks', 'Change', "ChangeFormatted('Y')", 'Basename', 'Group',
                   'GroupId', 'Parents', 'StartingPoint', 'InodeDecimal', 'DiskSizeKilos', 'PermissionsOctal', 'Hardlinks', 'Name', 'NameWithoutStartingPoint',
                   'DiskSizeBytes', 'Sparseness', 'Modify', "ModifyFormatted('s')", 'User', 'UserId', 'Type', 'FileId', 'ProjectId', 'MirrorCount', 'StripeCount',
                   'StripeSize', 'XAttr("user.a")']
    bad_tests = ['AccessNewer("f")', 'ChangeNewer("f")', 'FsType("lustre")', 'Group("g")', 'InsensitiveLinkName("l")', 'InsensitiveRegex("r")', 'LinkName("l")',
                 'ModifyNewer("f")', 'NoGroup', 'NoUser', 'Regex("r")', 'Samefile("f")', 'User("u")']
    trees = []
    for f in bad_fields:
        for shape in ('Action(PrintFormatted([Field(%s)]))', 'Action(PrintFormatted([Field(Name), Literal(" "), Field(%s), Special(Newline)]))',
                      'Action(FilePrintFormatted("o", [Field(%s), Field(Name)]))', 'Or(Test(False), Action(PrintFormatted([Literal("a"), Field(%s)])))'):
            trees.append((shape % f, True))
    for f in good_fields:
        trees.append(('Action(PrintFormatted([Field(Name), Literal(" "), Field(%s), Special(Newline)]))' % f, False))
        trees.append(('Action(FilePrintFormatted("o", [Field(%s)]))' % f, False))
    trees += [('Action(PrintFormatted([Literal("a"), Special(Clear)]))', True), ('Action(FilePrintFormatted("o", [Special(Clear), Field(Name)]))', True),
              ('Action(PrintFormatted([Literal("a"), Special(Backslash), Special(Ascii(65))]))', False)]
    for t in bad_tests:
        trees += [('Test(%s)' % t, True), ('And(Test(True), Not(Test(%s)))' % t, True), ('List(Test(%s), Action(Print))' % t, True), ('Or(Test(True), Test(%s))' % t, True)]
    trees += [('Action(List)', True), ('Action(FileList("f"))', True), ('Positional(XDev)', True), ('And(Test(True), Positional(XDev))', True),
              ('And(Test(Name("a")), Action(Print))', False), ('Test(Type([File]))', False), ('List(Action(Quit), Action(PrintFid))', False),
              ('List(Action(Quit), Action(Prune))', True), ('Action(Prune)', True)]
    for t, refused in trees:
        # refusal does not depend on the run options
        for opts in ('', '\tRunOptions { depth: true, threads: Some(3) }', '\tRunOptions { depth: true, threads: None }'):
            yield dict(op='ast', input=t + opts, expect='refused' if refused else 'compiles',
                       bad=(lambda g, refused=refused: (g[0] == 'OK' and refused) or (g[0] == 'CERR' and not refused)))


def family_ast_structure():
    """the structural demands (names bound once and before use, tags = table keys) on the same directly built trees"""
    for t in ast_trees():
        yield dict(op='ast', input=t, expect='names bound once and before use; frame tags = keys of the table',
                   bad=lambda g: g[0] == 'OK' and program_defects(g[1], g[2] if len(g) > 2 else '') is not None)


def _scheme_esc(s):
    return s.replace('\\', '\\\\').replace('"', '\\"')


def family_hostile():
    """user strings and device paths made of characters and words that a careless implementation would interpret"""
    words = ['a"b', 'a\\b', '{mdt}', '{policy}', '{options}', '{}', '{0}', '~a', '~', '%s', 'x y', "it's", 'caf\u00e9', '$1', '#t', '(x)', ';c', '{fini}', '{definitions}',
             '\u20acuro', '\u0100', '\u65e5\u672c', '\U0001F600"', 'a\u2022b', '\u0122\u015c', '\u017e']
    paths = ['/', '/dev/a"b', '/mnt/{options}/mdt0', '/mnt/{policy}', '/a\\b', '/x y', '/{mdt}', '/~a', '/caf\u00e9', '/{fini}/{modules}']

    def quote(wd):
        return "'%s'" % wd if "'" not in wd else '"%s"' % wd
    for wd in words:
        if '"' in wd and "'" in wd:
            continue
        for p in paths:
            want_dev = '(lipe-scan\n        "%s"\n' % _scheme_esc(p)
            want_pat = '(streq? "%s" ' % _scheme_esc(wd)
            yield dict(op='compile', input='-name %s\t%s' % (quote(wd), p),
                       expect='device literal "%s" after (lipe-scan, and the pattern literal "%s" in its matcher' % (_scheme_esc(p), _scheme_esc(wd)),
                       bad=(lambda g, a=want_dev, b=want_pat: g[0] == 'OK' and (a not in g[1] or b not in g[1])))
    # the same words through every matcher keyword, under both output modes (plain, and framed: -print0 / -fprint)
    for wd in words:
        if '"' in wd and "'" in wd:
            continue
        for kw, fn in (('-name', 'streq'), ('-iname', 'streq-ci'), ('-path', 'streq'), ('-ipath', 'streq-ci')):
            for tail in ('', ' -print0', ' -fprint out', ' -printf x'):
                want_pat = '(%s? "%s" ' % (fn, _scheme_esc(wd))
                yield dict(op='compile', input='%s %s%s' % (kw, quote(wd), tail), expect='the pattern literal "%s" in its %s matcher' % (_scheme_esc(wd), fn),
                           bad=(lambda g, b=want_pat: g[0] == 'OK' and b not in g[1]))


GENERATED = {
    'BOUNDED.clock_window': family_clock, 'C07.time_comp.text': family_clock,
    'BOUNDED.option_nodes': family_option_nodes, 'BOUNDED.sequence': family_sequence, 'BOUNDED.parse_grammar': family_precedence, 'BOUNDED.parse_refusal': family_parse_refusal, 'BOUNDED.parse_perm': family_perm, 'BOUNDED.parse_options': family_options, 'BOUNDED.parse_total': (family_parse_total, family_grammar), 'BOUNDED.parse_numbers': family_parse_numbers,
    'ASSUME.printer_map': family_table, 'C10.table.keys': family_table,
    'C09.top.wrap_decision': family_wrap, 'C19.action.iff': family_wrap, 'C09.emit.structure': family_wrap,
    'C12.refusal.iff': family_refusal, 'C12.top.iff': family_refusal,
    'C11.body.matcher_ref': family_numbers, 'C13.top.threads_value': family_numbers, 'C13.update.threads': family_numbers,
    'ASSUME.string_truncate': family_panics,
    'C20.render.text': family_hostile, 'C04.escape.string': family_hostile,
    'C11.local.matcher.share': family_matchers, 'C11.dist.matcher.share': family_matchers, 'C11.local.matcher.fresh': family_matchers,
    'C11.dist.matcher.fresh': family_matchers, 'C11.local.matcher.model': family_matchers, 'C11.dist.matcher.model': family_matchers,
    'C11.local.definitions': family_determinism, 'C11.dist.definitions': family_determinism,
    'C11.local.matcher.text': family_determinism, 'C11.dist.matcher.text': family_determinism,
}


# clause-id pattern -> further families (searched only after the verifier reported, or could not decide, the clause)
FAMILY_RULES = [
    (r'^C19\.(action|frames)', (family_queries, family_frames)),
    (r'^C19\.(mult|secs|byte_size)|^C07\.byte_size', (family_units,)),
    (r'^C10\.top\.manager_choice|^C10\.table\.iff_framed|^C10\.top\.table_iff', (family_frames,)),
    (r'^C15\.|^C19\.frames|\.definitions$|^C10\.top', (family_sequence, family_determinism)),
    (r'^C20\.', (family_renders, family_hostile, family_noninterference)),
    (r'^C04\.|matcher\.text|file_port\.text|matcher_ref|printf_ref', (family_noninterference, family_grammar_structure)),
    (r'^C1[01]\.', (family_grammar_structure,)),
    (r'\.matcher\.|get_matcher|matcher_name|matcher_ref', (family_matchers, family_hostile, family_long, family_ast_structure)),
    (r'\.(printer|file_port|default_port)\.|get_printer|get_file_printer|printer_name|printer_ref|printf_ref|^C10\.(table|top|routing|terminator_text)|\.definitions$',
     (family_table, family_ast_table, family_long, family_determinism, family_ast_structure)),
    (r'^C13\.', (family_numbers, family_options)),
    (r'^C12\.', (family_refusal, family_ast_refusal, family_parse_refusal, family_option_nodes)),
    (r'^C09\.|^C19\.action', (family_wrap, family_wrap_body, family_structure, family_ast_wrap, family_precedence)),
    (r'^SAFETY\.|^C11\.budget', (family_panics, family_long, family_ast, family_perm, family_grammar)),
    (r'^C08\.|^KANI\.c08', (family_perm,)),
    (r'^C04\.(placeholder|literal|snippet|format)|^C03\.type_list|^C07\.(size|time)|^C08\.', (family_ast_refusal, family_ast_structure)),
]


# one clause id per rule, so that the self-test can reach every family
RULE_SAMPLE_KEYS = ['C15.any', 'C19.frames.iff', 'C19.mult.table', 'C10.top.manager_choice', 'C20.render.text', 'C11.local.matcher.text', 'C10.dist.printer.text',
                    'C12.refusal.iff', 'SAFETY.undecided', 'C04.format.text']


def _has(sub):
    return lambda got: got[0] == 'OK' and sub in got[1]


def _is(kind):
    return lambda got: got[0] == kind


CANNED = {
    # clause id -> inputs whose outcome the clause fixes; `bad` recognises an outcome that violates it
    'C19.action.iff': [
        dict(op='compile', input='-quit', expect='no implicit print when an action is present', bad=_has('(print-relative-path)')),
        dict(op='compile', input='-true -o -quit', expect='no implicit print when an action is present', bad=_has('(print-relative-path)')),
        dict(op='compile', input='! -print', expect='no implicit print when an action is present', bad=_has('(print-relative-path)')),
        dict(op='compile', input='-true , -prune -o -print', expect='no implicit print', bad=_has('(print-relative-path)')),
        dict(op='compile', input='-true , -false', expect='implicit print when no action is present', bad=lambda g: g[0] == 'OK' and '(print-relative-path)' not in g[1]),
        dict(op='compile', input='-name a', expect='implicit print when no action is present', bad=lambda g: g[0] == 'OK' and '(print-relative-path)' not in g[1]),
    ],
    'C09.top.wrap_decision': [
        dict(op='compile', input='-false -o -name x', expect='implicit print when no action is present', bad=lambda g: g[0] == 'OK' and '(print-relative-path)' not in g[1]),
        dict(op='compile', input='-name x -a ( -false -o -true )', expect='implicit print when no action is present', bad=lambda g: g[0] == 'OK' and '(print-relative-path)' not in g[1]),
        dict(op='compile', input='! -name x', expect='implicit print when no action is present', bad=lambda g: g[0] == 'OK' and '(print-relative-path)' not in g[1]),
        dict(op='compile', input='-true , -quit', expect='no implicit print when an action is present', bad=_has('(print-relative-path)')),
    ],
    'C19.byte_size.value': [
        dict(op='compile', input='-size +16777216T', expect='constant 18446744073709551616', bad=lambda g: g[0] == 'OK' and ' 18446744073709551616)' not in g[1]),
        dict(op='compile', input='-size 36028797018963971', expect='constant 18446744073709553152', bad=lambda g: g[0] == 'OK' and ' 18446744073709553152)' not in g[1]),
        dict(op='compile', input='-size -3k', expect='constant 3072', bad=lambda g: g[0] == 'OK' and ' 3072)' not in g[1]),
    ],
    'C04.format.text': [
        dict(op='compile', input='-printf "backup~"', expect='(format #f "backup~~" )', bad=lambda g: g[0] == 'OK' and '(format #f "backup~~" )' not in g[1]),
        dict(op='compile', input="-printf 'a\"b%p'", expect='template a\\"b~a inside (format #f …)', bad=lambda g: g[0] == 'OK' and '(format #f "a\\"b~a" (absolute-path))' not in g[1]),
        dict(op='compile', input='-printf "%p\\n"', expect='(format #f "~a\\n" (absolute-path))', bad=lambda g: g[0] == 'OK' and '(format #f "~a\\n" (absolute-path))' not in g[1]),
    ],
    'C20.render.text': [
        dict(op='compile', input='-true\t/dev/a"b', expect='device literal "/dev/a\\"b"', bad=lambda g: g[0] == 'OK' and '"/dev/a\\"b"' not in g[1]),
        dict(op='compile', input='-true\t/dev/a\nb', expect='device literal with the newline itself', bad=lambda g: g[0] == 'OK' and '"/dev/a\nb"' not in g[1]),
    ],
    'C12.refusal.iff': [
        dict(op='compile', input='-regex foo , -print', expect='refused (unsupported test left of a comma)', bad=_is('OK')),
        dict(op='compile', input='nope', expect='refused (unsupported option)', bad=_is('OK')),
        dict(op='compile', input='-true -o -regex x', expect='refused (unsupported test in a dead branch)', bad=_is('OK')),
        dict(op='compile', input='! ( -name a -o -samefile b )', expect='refused', bad=_is('OK')),
        dict(op='compile', input='-printf "%p%Z"', expect='refused (unsupported format directive)', bad=_is('OK')),
        dict(op='compile', input='-ls', expect='refused (unsupported action)', bad=_is('OK')),
        dict(op='compile', input='-name a -print', expect='compiles', bad=_is('CERR')),
    ],
    'C13.update.threads': [
        dict(op='parse', input='-threads 3 -threads 9', expect='threads: Some(9)', bad=lambda g: g[0] == 'OK' and 'threads: Some(9)' not in g[1]),
    ],
    'C13.update.depth': [
        dict(op='parse', input='-depth -threads 2', expect='depth: true', bad=lambda g: g[0] == 'OK' and 'depth: true' not in g[1]),
    ],
}


# functions left outside the verifier (assumed contracts) that get a BOUNDED stand-in: the family is run on every check
BOUNDED_STANDINS = {
    'C15': [('BOUNDED.sequence', 'BOUNDED.sequence', 'find_parser::parse (outside the verifier: whether it keeps state between calls is not decided by proof) and the whole '
             'pipeline — bounded stand-in: for all ordered pairs A, B of twenty inputs (output modes, matchers, printers, time tests, refusals, options after the start of the '
             'expression, rejected inputs) the sequence A, B, A, C, A in a fresh process answers A identically three times, and four texts are answered identically before and after 300 refused inputs'),
            ('BOUNDED.clock_window', 'BOUNDED.clock_window', 'compile_time_comp\'s clock read (SystemTime: no clock model in the verifier) — bounded stand-in: five '
             'time-test compilations in one process more than a second apart, two of them right after a refused or rejected compilation that '
             'contained a time test; each embedded second must lie within its own compile call')],
    'C13': [('BOUNDED.parse_options', 'BOUNDED.parse_options', 'find_parser::_parse (winnow combinators and closures over &mut state: outside the verifier) — bounded '
             'stand-in: 1..3 options out of {-depth, -threads 2, -threads 8} inserted at every word boundary of 4 base expressions; the options returned '
             'carry the last value of each and the tree is that of the expression with misplaced options read as -true')],
    'C03': [('BOUNDED.parse_total', 'BOUNDED.parse_total', 'find_parser::parse incl. ParserError::dispatch (outside the verifier) — bounded stand-in: every prefix and '
             'four single-character mutations at every position of 6 valid inputs, long / non-ASCII words after 12 keywords, and 20,000 (thorough: 200,000) '
             'grammar-generated expressions over every keyword with boundary numbers, modes and format strings (parsed and compiled): never a panic')],
    'C07': [('BOUNDED.parse_numbers', 'BOUNDED.parse_numbers', 'the digit-run conversions of find_parser (winnow try_map over str::parse: outside the verifier) — bounded '
             'stand-in: decimal arguments around 0, 2^31, 2^32, 2^55, 2^64 and 10^30 for every numeric primary, with signs, leading zeros, every size and time unit letter '
             '(and unknown ones), the default units, the -type letter table: exact in the tree or rejected')],
    'C08': [('BOUNDED.parse_perm', 'BOUNDED.parse_perm', 'PermCheck::parse / Permission::parse (winnow alt/preceded/separated over the verified clause code: outside the verifier) — '
             'bounded stand-in: for all 4096 octal values in 3- and 4-digit spelling, all 315 single clauses and two-clause lists (81 in the quick tier, all 99,225 in the '
             'thorough tier), the prefix selects the check and nothing else (`-A` = all bits of V, `/A` = some bit of V, V the value of plain `A`); octal arguments '
             'denote their value, longer or larger digit runs are rejected; lists without a `-` clause equal chmod\'s result')],
    'C09': [('BOUNDED.parse_grammar', 'BOUNDED.parse_grammar', 'find_parser::precedence (which tree a word sequence parses to: winnow combinators, outside the verifier; "as if ( expression ) -a '
             'print had been written" depends on it) — bounded stand-in: every word sequence up to length 5 (thorough: 6) over { ( ) ! , -a -o -true -print } and 4,000 longer '
             'ones with the synonyms: accepted exactly when it is a sentence, and then the tree is the reference tree (! over AND over OR over `,`, left-associative, '
             'parentheses leave no node)')],
    'C12': [('BOUNDED.option_nodes', 'BOUNDED.option_nodes', 'Expression::compile on trees that hold an option node (outside the domain of the compile contract: the parser never '
             'returns them, the public constructors can build them) — bounded stand-in: 4 option nodes in 7 tree shapes are never turned into a program'),
            ('BOUNDED.parse_refusal', 'BOUNDED.parse_refusal', 'the keyword table of find_parser (which node a keyword and its argument parse to: winnow combinators, outside the verifier) — '
             'bounded stand-in: each of the 19 primaries and options the target cannot express, with 18 argument spellings (names starting with digits, numbers, quoted '
             'words, patterns) in 7 expression shapes (two of them under -depth / -threads), is refused or rejected and never compiled; their supported neighbours compile')],
    'C10': [('BOUNDED.printer_map', 'ASSUME.printer_map',
             'DistributedSchemeManager::printer_map (iterator over the hash map: external_body) — bounded stand-in: all expressions of up to 3 '
             'output actions over 6 destination/terminator kinds; the table must be the inverse of the tag map')],
}


def profile_agreement(repo, scratch):
    """C17 (bounded): a debug and a release build of the replay crate must answer every request of the corpora identically
    (the embedded clock second normalised)"""
    f = dict(id='BOUNDED.profile_agreement', clause='BOUNDED.profile_agreement', kind='bounded', fn='the whole library, debug vs release build', cfg='replay',
             message='', rendered='', repo_file=None, repo_line=None, expr='')
    dbg = build_replayer(repo, scratch)
    rel = build_replayer(repo, scratch, release=True)
    if not dbg or not rel:
        f['witness_error'] = 'could not build both profiles'
        return f
    reqs, seen = [], set()
    for fam in (family_parse_total, family_parse_numbers, family_options, family_numbers, family_refusal, family_hostile, family_table, family_panics, family_long, family_ast, family_perm, family_grammar, family_parse_refusal):
        for c in fam():
            for op_, inp_ in [(c['op'], c['input'])] + ([c['also']] if c.get('also') else []) + list(c.get('also3', ())):
                r = (op_,) + tuple(inp_.split('\t'))
                if r not in seen:
                    seen.add(r); reqs.append(r)
    for v in ('-size +16777216T', '-size 18446744073709551615T', '-size -1c', '-amin -5 -o -mtime +2', 'nope', '-perm 7777', '-perm 17777'):
        reqs.append(('compile', v))
    a, b = run_requests(dbg, reqs), run_requests(rel, reqs)
    norm = lambda g: [re.sub(r'\(- \d{9,12} \(', '(- NOW (', x) for x in g]
    f['witness_search'] = dict(inputs_tried=len(reqs), requests=2 * len(reqs))
    for r, x, y in zip(reqs, a, b):
        if norm(x) != norm(y):
            f['witness'] = dict(public_api_input='\t'.join(r[1:]), request=r[0], observed=dict(debug=[s[:200] for s in x[:2]], release=[s[:200] for s in y[:2]]),
                                expected='the same answer from both builds')
            f['replayed'] = True
            break
    return f


def bounded_standins(pid, repo, scratch):
    out = []
    if pid == 'C17':
        f = profile_agreement(repo, scratch)
        out.append(('BOUNDED.profile_agreement', 'debug and release builds of the library (front end included: outside the verifier) — bounded stand-in: both '
                    'builds must answer identically on the corpora of the other stand-ins and witness families (about 70k parse/compile/tree requests per build in the quick tier)', f))
    for name, key, claim in BOUNDED_STANDINS.get(pid, []):
        f = dict(id=name, clause=key, kind='bounded', fn=claim.split(' (')[0], cfg='replay',
                 message=claim, rendered='', repo_file=None, repo_line=None, expr='')
        find(pid, f, repo, scratch)
        out.append((name, claim, f))
    return out


def replay(record, repo):
    """./check <id> --replay FILE : re-run the recorded input on the current tree"""
    import tempfile
    w = record.get('failing_input') or {}
    inp = w.get('public_api_input')
    if not inp:
        print('no concrete input recorded (the verifier gave no counterexample for this obligation)')
        return 0
    scratch = tempfile.mkdtemp(prefix='fpreplay.', dir=os.environ.get('TMPDIR', '/var/tmp'))
    try:
        binary = build_replayer(repo, scratch)
        if not binary:
            print('could not build the replay crate')
            return 2
        reqs = [(w.get('request', 'compile'),) + tuple(inp.split('\t'))] * int(w.get('repeated') or 1)
        out = run_requests(binary, reqs)
        print('input   :', inp.replace('\t', '   [device path:] '))
        print('expected:', w.get('expected_mode') or w.get('expected'))
        print('observed:', ([x[:400] for x in out[0][:2]] if out else None))
        if w.get('expected_mode') is not None and out and out[0][0] == 'OK':
            obs = perm_constant(out[0][1])
            print('observed mode: %s' % (None if obs is None else '%04o' % obs))
            return 1 if obs is not None and '%04o' % obs != w['expected_mode'] else 0
        # re-evaluate the oracle of the family the input came from
        for case in cases_for(w.get('family') or ''):
            if case['input'] == inp and case['op'] == w.get('request', 'compile'):
                comp = ([case['also']] if case.get('also') else []) + list(case.get('also3', ()))
                if comp:
                    # relational oracle: the companion requests are replayed too
                    more = run_requests(binary, [(o,) + tuple(i_.split('\t')) for o, i_ in comp])
                    for (o, i_), g_ in zip(comp, more):
                        print('companion:', o, i_[:200], '->', [x[:200] for x in g_[:2]])
                    bad = len(more) == len(comp) and case['bad'](out[0], *more)
                else:
                    bad = case['bad'](out) if case.get('repeat') else case['bad'](out[0])
                print('still violates the clause on the current tree' if bad else 'no longer violates the clause on the current tree')
                return 1 if bad else 0
        return 0
    finally:
        shutil.rmtree(scratch, ignore_errors=True)
