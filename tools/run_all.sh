#!/bin/bash
# run every claimed check once on the current tree (refreshes /verif/evidence); prints one line per property
cd "$(dirname "$0")/.." || exit 2
rc=0
for p in $(python3 -c "import json;print(' '.join(c['property_id'] for c in json.load(open('MANIFEST.json'))['checks']))"); do
  out=$(./check $p --tier "${1:-quick}" 2>&1); r=$?
  echo "$out" | grep -E "^(OK|VIOLATION|INCONCLUSIVE|KNOWN-FINDING)" | cut -c1-200
  [ $r -ne 0 ] && rc=$r
done
exit $rc
