"""A small Rust lexer: enough to find items, match brackets and skip comments/strings.

Not a parser.  It produces a flat token list with byte offsets; everything the annotation pass
needs (locating `fn` items inside `impl`/`trait` blocks, the opening brace of a body, the end of
a statement, a closure's parameter list) is built on bracket matching over these tokens.
"""
import re
from dataclasses import dataclass


@dataclass
class Tok:
    kind: str   # 'id', 'punct', 'str', 'char', 'life', 'num', 'comment'
    text: str
    pos: int    # byte offset of first char
    end: int    # offset one past the last char


_ident = re.compile(r'[A-Za-z_][A-Za-z0-9_]*')
_num = re.compile(r'[0-9][A-Za-z0-9_]*(\.[0-9][A-Za-z0-9_]*)?')
_punct3 = ('...', '..=')
_punct2 = ('->', '=>', '::', '==', '!=', '<=', '>=', '&&', '||', '+=', '-=', '*=', '/=', '%=',
           '^=', '&=', '|=', '..')


class LexError(Exception):
    pass


def lex(src: str, keep_comments=False):
    toks = []
    i, n = 0, len(src)
    while i < n:
        c = src[i]
        if c in ' \t\r\n':
            i += 1
            continue
        if src.startswith('//', i):
            j = src.find('\n', i)
            j = n if j < 0 else j
            if keep_comments:
                toks.append(Tok('comment', src[i:j], i, j))
            i = j
            continue
        if src.startswith('/*', i):
            depth, j = 1, i + 2
            while j < n and depth:
                if src.startswith('/*', j):
                    depth += 1; j += 2
                elif src.startswith('*/', j):
                    depth -= 1; j += 2
                else:
                    j += 1
            if keep_comments:
                toks.append(Tok('comment', src[i:j], i, j))
            i = j
            continue
        # raw strings r"..", r#".."#, br#".."#
        m = re.match(r'(b?r)(#*)"', src[i:i + 40])
        if m:
            hashes = m.group(2)
            close = '"' + hashes
            j = src.find(close, i + m.end())
            if j < 0:
                raise LexError('unterminated raw string at %d' % i)
            j += len(close)
            toks.append(Tok('str', src[i:j], i, j)); i = j
            continue
        if c == '"' or (c == 'b' and i + 1 < n and src[i + 1] == '"'):
            j = i + (2 if c == 'b' else 1)
            while j < n and src[j] != '"':
                j += 2 if src[j] == '\\' else 1
            if j >= n:
                raise LexError('unterminated string at %d' % i)
            j += 1
            toks.append(Tok('str', src[i:j], i, j)); i = j
            continue
        if c == "'" or (c == 'b' and i + 1 < n and src[i + 1] == "'"):
            k = i + (1 if c == 'b' else 0)
            # char literal: '\..' or 'x' followed by '
            if k + 1 < n and src[k + 1] == '\\':
                j = src.find("'", k + 3)
                if j < 0:
                    raise LexError('bad char literal at %d' % i)
                j += 1
                toks.append(Tok('char', src[i:j], i, j)); i = j
                continue
            # find end of a single (possibly multi-byte) char
            if k + 2 < n and src[k + 2] == "'":
                j = k + 3
                toks.append(Tok('char', src[i:j], i, j)); i = j
                continue
            # lifetime
            m = _ident.match(src, k + 1)
            if m:
                toks.append(Tok('life', src[i:m.end()], i, m.end())); i = m.end()
                continue
            raise LexError('bad quote at %d' % i)
        m = _ident.match(src, i)
        if m:
            toks.append(Tok('id', m.group(0), i, m.end())); i = m.end()
            continue
        m = _num.match(src, i)
        if m:
            toks.append(Tok('num', m.group(0), i, m.end())); i = m.end()
            continue
        for p in _punct3:
            if src.startswith(p, i):
                toks.append(Tok('punct', p, i, i + 3)); i += 3
                break
        else:
            for p in _punct2:
                if src.startswith(p, i):
                    toks.append(Tok('punct', p, i, i + 2)); i += 2
                    break
            else:
                toks.append(Tok('punct', c, i, i + 1)); i += 1
    return toks


OPEN = {'(': ')', '[': ']', '{': '}'}
CLOSE = {v: k for k, v in OPEN.items()}


def match_brackets(toks):
    """index of matching bracket for each bracket token index"""
    stack, pair = [], {}
    for idx, t in enumerate(toks):
        if t.kind != 'punct':
            continue
        if t.text in OPEN:
            stack.append(idx)
        elif t.text in CLOSE:
            if not stack or toks[stack[-1]].text != CLOSE[t.text]:
                raise LexError('unbalanced %s at %d' % (t.text, t.pos))
            o = stack.pop()
            pair[o] = idx
            pair[idx] = o
    if stack:
        raise LexError('unclosed bracket at %d' % toks[stack[-1]].pos)
    return pair


@dataclass
class FnItem:
    qual: str          # e.g. "Size::mult", "TargetScheme for Test::compile", "size_matching"
    name: str
    fn_tok: int        # index of the `fn` token
    item_start: int    # byte offset where the item starts (incl. attributes, doc comments, `pub`)
    sig_start: int     # byte offset of `fn` keyword (or of `pub`/qualifiers before it)
    params_open: int   # token index of '('
    params_close: int  # token index of ')'
    arrow: int         # token index of '->' or -1
    body_open: int     # token index of '{' or -1 for a declaration
    body_close: int    # token index of '}' or of ';'
    ret_span: tuple    # (start,end) byte offsets of the return type text, or None


def _norm(s):
    return re.sub(r'\s+', ' ', s).strip()


def find_fns(src: str, toks=None):
    """All fn items with their enclosing impl/trait header (one level)."""
    toks = toks or lex(src)
    pair = match_brackets(toks)
    out = []
    blocks = []  # (header, open_tok, close_tok) of impl/trait blocks
    # contexts: list of (close_tok_index, header or None)
    ctx = []
    i = 0
    n = len(toks)
    while i < n:
        t = toks[i]
        while ctx and i > ctx[-1][0]:
            ctx.pop()
        if t.kind == 'id' and t.text in ('impl', 'trait', 'mod') and (i == 0 or toks[i - 1].text != '::'):
            # find the '{' of this block at depth 0 (or ';' for `mod x;`)
            j = i + 1
            while j < n and not (toks[j].kind == 'punct' and toks[j].text in ('{', ';')):
                if toks[j].kind == 'punct' and toks[j].text in ('(', '['):
                    j = pair[j]
                j += 1
            if j < n and toks[j].text == '{':
                header = _norm(src[t.pos:toks[j].pos])
                if t.text == 'impl':
                    header = re.sub(r'^impl(<[^>]*>)?\s*', '', header)
                    header = re.sub(r'\s+where\b.*$', '', header)
                elif t.text == 'mod':
                    header = None  # modules do not qualify names
                ctx.append((pair[j], header))
                if header:
                    blocks.append((header, j, pair[j]))
                i = j + 1
                continue
            i = j + 1
            continue
        if t.kind == 'id' and t.text == 'fn' and i + 1 < n and toks[i + 1].kind == 'id':
            name = toks[i + 1].text
            # parameter list: first '(' after name (skip generics)
            j = i + 2
            depth_angle = 0
            while j < n:
                if toks[j].text == '<':
                    depth_angle += 1
                elif toks[j].text == '>':
                    depth_angle -= 1
                elif toks[j].text == '(' and depth_angle == 0:
                    break
                j += 1
            po, pc = j, pair[j]
            # body: first '{' or ';' at depth 0 after params
            k = pc + 1
            arrow = -1
            while k < n and not (toks[k].kind == 'punct' and toks[k].text in ('{', ';')):
                if toks[k].text == '->' and arrow < 0:
                    arrow = k
                if toks[k].kind == 'punct' and toks[k].text in ('(', '['):
                    k = pair[k]
                k += 1
            if toks[k].text == '{':
                bo, bc = k, pair[k]
            else:
                bo, bc = -1, k
            ret_span = None
            if arrow >= 0:
                # return type ends at `where` or at body/';'
                e = arrow + 1
                while e < k and not (toks[e].kind == 'id' and toks[e].text == 'where'):
                    if toks[e].kind == 'punct' and toks[e].text in ('(', '['):
                        e = pair[e]
                    e += 1
                ret_span = (toks[arrow + 1].pos, toks[e - 1].end)
            # item start: walk back over qualifiers, attributes
            s = i
            while s > 0 and toks[s - 1].kind == 'id' and toks[s - 1].text in (
                    'pub', 'const', 'async', 'unsafe', 'extern', 'default'):
                s -= 1
            # `pub(crate)`
            if s > 0 and toks[s - 1].text == ')' and pair[s - 1] > 0 and toks[pair[s - 1] - 1].text == 'pub':
                s = pair[s - 1] - 1
            sig_start = toks[s].pos
            a = s
            while a >= 2 and toks[a - 1].text == ']' and toks[pair[a - 1] - 1].text == '#':
                a = pair[a - 1] - 1
            item_start = toks[a].pos
            headers = [h for (_, h) in ctx if h]
            qual = (headers[-1] + '::' if headers else '') + name
            out.append(FnItem(qual, name, i, item_start, sig_start, po, pc, arrow, bo, bc, ret_span))
            # continue scanning inside body for nested fns/closures? nested fns are rare; skip body
            i = (bc + 1) if bo >= 0 else (k + 1)
            continue
        i += 1
    find_fns.last_blocks = blocks
    return toks, pair, out


def line_of(src, pos):
    return src.count('\n', 0, pos) + 1
