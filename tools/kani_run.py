#!/usr/bin/env python3
"""kani_run.py — decide the bit-level obligations with Kani/CBMC on fragments lifted from the real source.

For every harness set (kani/<name>.json + kani/<name>.rs):
  * the named fragments (closure bodies, a `match` expression, a call argument) are located in the
    *current* text of the file by a unique anchor and bracket matching, and emitted verbatim as the
    bodies of generated `lifted_*` functions inside a `#[cfg(kani)]` module appended to the same
    file (so private items resolve).  What lifting drops: the winnow combinator that surrounds the
    fragment; the domain that combinator admits is re-stated as `kani::assume` in the harness and
    the anchor texts that justify it are checked to be present (`domain_anchors`).
  * `cargo kani` runs the listed harnesses on a scratch copy of the crate.
A lost anchor is inconclusive (exit 2 in the caller), never a verdict.
"""
import json
import os
import re
import shutil
import subprocess
import sys
import time

HERE = os.path.dirname(os.path.dirname(os.path.abspath(__file__)))
sys.path.insert(0, os.path.join(HERE, 'tools'))
import rustlex  # noqa: E402


class Lost(Exception):
    pass


def _find_unique(src, anchor):
    idxs = [m.start() for m in re.finditer(re.escape(anchor), src)]
    if len(idxs) != 1:
        raise Lost('anchor %r occurs %d times' % (anchor, len(idxs)))
    return idxs[0]


def _tok_index_at(toks, pos):
    for i, t in enumerate(toks):
        if t.pos >= pos:
            return i
    raise Lost('no token at %d' % pos)


def _expr_end(toks, pair, i):
    """index one past the end of the expression starting at token i (up to a top-level , ) ] } ;)"""
    j = i
    while j < len(toks):
        t = toks[j]
        if t.kind == 'punct':
            if t.text in ('(', '[', '{'):
                j = pair[j] + 1
                continue
            if t.text in (',', ')', ']', '}', ';'):
                return j
        j += 1
    return j


def lift(src, spec):
    toks = rustlex.lex(src)
    pair = rustlex.match_brackets(toks)
    kind = spec['kind']
    p = _find_unique(src, spec['anchor'])
    if kind == 'expr':
        # expression starting at `start` text inside the anchor
        q = src.index(spec['start'], p)
        i = _tok_index_at(toks, q)
        j = _expr_end(toks, pair, i)
        body = src[toks[i].pos:toks[j - 1].end]
        return dict(params=[], body=body, line=rustlex.line_of(src, toks[i].pos))
    if kind == 'call_arg':
        # anchor ends with '(' of the call
        open_pos = p + len(spec['anchor']) - 1
        oi = _tok_index_at(toks, open_pos)
        if toks[oi].text != '(':
            raise Lost('call_arg anchor must end with (')
        k, idx = oi + 1, 0
        while True:
            e = _expr_end(toks, pair, k)
            if idx == spec['index']:
                return dict(params=[], body=src[toks[k].pos:toks[e - 1].end], line=rustlex.line_of(src, toks[k].pos))
            if toks[e].text != ',':
                raise Lost('call has no argument %d' % spec['index'])
            k, idx = e + 1, idx + 1
    if kind == 'closure':
        # the closure starts right after the anchor text: |params| body
        i = _tok_index_at(toks, p + len(spec['anchor']))
        if toks[i].text == 'move':
            i += 1
        if toks[i].text != '|':
            raise Lost('no closure after anchor %r' % spec['anchor'])
        j = i + 1
        params, start = [], None
        depth = 0
        pstart = j
        while not (toks[j].text == '|' and depth == 0):
            if toks[j].kind == 'punct' and toks[j].text in ('(', '['):
                depth += 1
            elif toks[j].kind == 'punct' and toks[j].text in (')', ']'):
                depth -= 1
            elif toks[j].text == ',' and depth == 0:
                params.append(src[toks[pstart].pos:toks[j - 1].end]); pstart = j + 1
            j += 1
        if j > pstart:
            params.append(src[toks[pstart].pos:toks[j - 1].end])
        # drop a type ascription on a plain identifier parameter (`t: &TimeSpec`), keep patterns as they are
        names = [re.sub(r'^(\w+)\s*:.*$', r'\1', q.strip()) for q in params]
        b = j + 1
        e = _expr_end(toks, pair, b)
        return dict(params=names, body=src[toks[b].pos:toks[e - 1].end], line=rustlex.line_of(src, toks[b].pos))
    raise Lost('unknown lift kind %s' % kind)


def gen_lifted(src, cfg):
    out = []
    for sp in cfg['lifts']:
        l = lift(src, sp)
        sig = sp['sig']
        m = re.match(r'\((.*)\)\s*(->\s*(.*))?$', sig)
        sig_params, depth, cur = [], 0, ''
        for ch in m.group(1):
            if ch in '([<':
                depth += 1
            elif ch in ')]>':
                depth -= 1
            if ch == ',' and depth == 0:
                sig_params.append(cur.strip()); cur = ''
            else:
                cur += ch
        if cur.strip():
            sig_params.append(cur.strip())
        sig_names = [x.split(':')[0].strip() for x in sig_params]
        bind = ''
        if l['params']:
            if len(l['params']) != len(sig_names):
                raise Lost('closure %s takes %d parameters, expected %d' % (sp['name'], len(l['params']), len(sig_names)))
            for a, b in zip(l['params'], sig_names):
                if a != b:
                    bind += 'let %s = %s; ' % (a, b)
        out.append('    // lifted verbatim from %s:%d (%s)\n    #[allow(unused_parens, unused_variables)]\n    fn %s%s {\n        %s%s\n    }\n'
                   % (cfg['file'], l['line'], sp['kind'], sp['name'], sig, bind, l['body']))
    return '\n'.join(out)


def prepare(repo, scratch, sets):
    if os.path.exists(scratch):
        shutil.rmtree(scratch)
    os.makedirs(scratch)
    shutil.copytree(os.path.join(repo, 'src'), os.path.join(scratch, 'src'))
    for f in ('Cargo.toml', 'Cargo.lock'):
        shutil.copy(os.path.join(repo, f), os.path.join(scratch, f))
    os.makedirs(os.path.join(scratch, '.cargo'))
    open(os.path.join(scratch, '.cargo', 'config.toml'), 'w').write('[net]\noffline = true\n')
    harnesses = []
    for name in sets:
        cfg = json.load(open(os.path.join(HERE, 'kani', name + '.json')))
        path = os.path.join(scratch, cfg['file'])
        src = open(path).read()
        for a in cfg.get('domain_anchors', []):
            if a not in src:
                raise Lost('%s: domain anchor %r not found (the combinator that bounds the fragment changed)' % (cfg['file'], a))
        lifted = gen_lifted(src, cfg)
        mod = open(os.path.join(HERE, 'kani', name + '.rs')).read().replace('    //@LIFTED@', lifted)
        open(path, 'a').write('\n' + mod)
        for h in cfg['harnesses']:
            h = dict(h)
            h['set'] = name
            h['repo_file'] = cfg['file']
            harnesses.append(h)
    return harnesses


def run_harnesses(repo, scratch, sets, tier='quick', timeout=None):
    timeout = timeout or (900 if tier == 'thorough' else 300)
    t0 = time.time()
    res = dict(harnesses=[], inconclusive=[], summary=None, cmd='')
    try:
        hs = prepare(repo, scratch, sets)
    except (Lost, rustlex.LexError) as e:
        res['inconclusive'].append(dict(message='kani: lost-anchor: %s' % e, rendered='', cfg='cbmc'))
        return res
    hs = [h for h in hs if tier == 'thorough' or not h.get('thorough_only')]
    cmd = ['cargo', 'kani', '-j', '8', '--output-format', 'terse']
    for h in hs:
        cmd += ['--harness', h['name']]
    res['cmd'] = 'CARGO_NET_OFFLINE=true ' + ' '.join(cmd)
    env = dict(os.environ, CARGO_NET_OFFLINE='true', CARGO_TARGET_DIR=os.path.join(scratch, 'target'))
    env.pop('RUSTUP_TOOLCHAIN', None)
    import signal
    p = subprocess.Popen(cmd, cwd=scratch, env=env, stdout=subprocess.PIPE, stderr=subprocess.STDOUT, text=True, start_new_session=True)
    try:
        out, _ = p.communicate(timeout=timeout)
    except subprocess.TimeoutExpired:
        os.killpg(p.pid, signal.SIGKILL)
        p.communicate()
        res['inconclusive'].append(dict(message='kani: timeout after %ds' % timeout, rendered='', cfg='cbmc'))
        return res
    # terse parallel output: "Thread N: Checking harness X..." then later "Thread N: <result block>"
    status = {}
    thread_of = {}
    parts = re.split(r'(?m)^Thread (\d+): ', out)
    # parts = [pre, tid, text, tid, text, ...]
    for k in range(1, len(parts) - 1, 2):
        tid, text = parts[k], parts[k + 1]
        m = re.match(r'Checking harness (\S+?)\.\.\.', text)
        if m:
            thread_of[tid] = m.group(1).split('::')[-1]
            continue
        name = thread_of.get(tid)
        if name is None:
            continue
        text = text.split('Manual Harness Summary')[0]
        v = re.search(r'VERIFICATION:- (SUCCESSFUL|FAILED)', text)
        checks = re.search(r'\*\* (\d+) of (\d+) failed', text)
        cov = re.search(r'\*\* (\d+) of (\d+) cover properties satisfied', text)
        tm = re.search(r'Verification Time: ([0-9.]+)s', text)
        status[name] = dict(verdict=v.group(1) if v else None, failed=int(checks.group(1)) if checks else None,
                            total=int(checks.group(2)) if checks else None,
                            unsat_cover=(int(cov.group(2)) - int(cov.group(1))) if cov else 0,
                            time_s=float(tm.group(1)) if tm else None, text=text)
    n_ok = 0
    for h in hs:
        st = status.get(h['name'])
        ent = dict(name=h['name'], tags=h['tags'], aux=h.get('aux', False), claim=h['claim'], fragment=h.get('fragment', ''), bounded=h.get('bounded', False),
                   repo_file=h['repo_file'], status=None, checks=None, time_s=None)
        if st is None or st['verdict'] is None:
            res['inconclusive'].append(dict(message='kani: no verdict for harness %s' % h['name'], rendered=out[-3000:], cfg='cbmc'))
            ent['status'] = 'UNKNOWN'
        else:
            ent['checks'] = st['total']
            ent['time_s'] = st['time_s']
            if st['verdict'] == 'SUCCESSFUL':
                if st['unsat_cover']:
                    # vacuity: a cover! that cannot be reached means the assumptions exclude everything
                    res['inconclusive'].append(dict(message='kani: harness %s is vacuous (unsatisfiable cover)' % h['name'],
                                                    rendered=st['text'][-1500:], cfg='cbmc'))
                    ent['status'] = 'VACUOUS'
                else:
                    ent['status'] = 'SUCCESSFUL'
                    n_ok += 1
            else:
                ent['status'] = 'FAILED'
                fails = re.findall(r'Failed Checks: ([^\n]*)\n\s*File: "([^"]*)", line (\d+)', st['text'])
                ent['output'] = st['text'][-5000:]
                ent['failed_checks'] = [dict(desc=a, file=b, line=int(c)) for a, b, c in fails]
                # concrete values
                # second run of this harness alone for the counterexample values
                try:
                    r2 = subprocess.run(['cargo', 'kani', '-Z', 'concrete-playback', '--concrete-playback=print', '--harness', h['name']],
                                        cwd=scratch, env=env, stdout=subprocess.PIPE, stderr=subprocess.STDOUT, text=True, timeout=timeout)
                    vals = re.findall(r'//\s*(-?\d+|true|false|\'.\')\s*\n\s*vec!\[([^\]]*)\]', r2.stdout)
                    ent['witness'] = None
                    pb = r2.stdout[r2.stdout.find('Concrete playback unit test'):] if 'Concrete playback unit test' in r2.stdout else ''
                    ent['output'] = ent['output'][-2500:] + '\n--- concrete playback ---\n' + pb.split('INFO:')[0][-3500:]
                except subprocess.TimeoutExpired:
                    ent['witness'] = None
        res['harnesses'].append(ent)
    res['summary'] = dict(harnesses=len(hs), successful=n_ok, wall_s=round(time.time() - t0, 1),
                          checks=sum((h['checks'] or 0) for h in res['harnesses']),
                          cbmc_time_s=round(sum((h['time_s'] or 0) for h in res['harnesses']), 2))
    return res


if __name__ == '__main__':
    import pprint
    sets = sys.argv[1:] or ['permission']
    r = run_harnesses(os.environ.get('VERIF_REPO', '/repo'), '/var/tmp/kani_dev', sets)
    for h in r['harnesses']:
        print(h['name'], h['status'], h['checks'], h['time_s'], h.get('failed_checks'), h.get('witness'))
    print(r['summary'])
    for i in r['inconclusive']:
        print('INCONCLUSIVE', i['message'])
        print(i['rendered'][-2500:])
