#!/usr/bin/env python3
"""annotate.py — turn a copy of /repo's working tree into a Verus-checkable crate.

Reads the contract files in /verif/contracts/*.vc and, for every `//@ file` section, wraps the
real source text in `verus!{}` and splices the contracts between signatures and bodies.  The
executable text is never rewritten except by the explicit `//@ replace` normalisations, each of
which is an exact-match rewrite with an expected match count.

Contract file directives (one per line, everything up to the next `//@` line is the payload):

  //@ file <path>                         following directives apply to this file of the crate
  //@ wrap                                wrap the file (after leading `#![..]`/`mod x;` lines) in verus!{}
  //@ wrap from "<anchor>" to "<anchor>"  wrap only the lines from the first anchor line up to (not
                                          including) the line holding the second anchor ("EOF" = end)
  //@ top                                 payload inserted just before `verus!{`
  //@ crate_top                           payload inserted at the very top of the file (inner attributes)
  //@ append                              payload inserted just before the closing `}` of verus!{}
  //@ fn <qual> [-> <name>]               payload (requires/ensures/decreases…) spliced before the body
                                          `{` (or before `;` for a trait method declaration); with
                                          `-> name` the return type T becomes `(name: T)`
  //@ attr <qual>                         payload (attributes) inserted before the fn item
  //@ in <qual> before-stmt "<anchor>"    payload inserted before the statement containing the anchor
  //@ in <qual> after-stmt "<anchor>"     payload inserted after the statement containing the anchor
  //@ in <qual> after "<anchor>"          payload inserted immediately after the anchor text
  //@ in <qual> before "<anchor>"         payload inserted immediately before the anchor text
  //@ in <qual> body-start                payload inserted right after the body's `{`
  //@ in <qual> closure "<anchor>"        payload (`-> (r: T) ensures …`) after the closure parameter list that the anchor ends with;
                                          an expression body gets braces
  //@ in <qual> before-tail               payload inserted before the last statement / tail expression of the body
  //@ file-before "<anchor>" / file-after "<anchor>"   payload inserted before/after a unique anchor of the file
  //@ block <header> start|end            payload inserted right after the `{` / before the `}` of the
                                          impl or trait block with that header (e.g. `trait SchemeManager`,
                                          `SchemeManager for LocalSchemeManager`)
  //@ replace <count> "<old>" => "<new>" [in <qual>]     exact-match rewrite (normalisation)
  //@ replace-ws <count> "<old>" => "<new>" [in <qual>]  the same, matching modulo whitespace between the words of <old>
  //@ underscore-params <qual>            rename `_` parameter patterns of that fn to `_pN` (Verus rejects `_` there)
  //@ fmt                                 text layer: rewrite every format!(LIT, args…) of this file's verified functions into a
                                          generated helper `__vfmt_k(&(args)…)` whose external body is the same format! call and
                                          whose ensures spells out the literal (N4)
  //@ hoist "<expr>" => "<call>" as <name> in <qual>   replace the (whitespace-insensitive) expression by a call; an //@ append
                                          payload defines the callee as external_body with `@HOISTED(name)@` as its body (N5)
  //@ optional                            (prefix line) the next directive may miss its anchor silently

Inside payloads a comment line `//# <clause-id> [TAG TAG …] free text` names the obligation that
the following lines (up to the next `//#`) express; the source map sends a verifier diagnostic on
those lines back to that clause id and its property tags.

Exit status: 0 ok, 2 lost anchor / malformed input (never a property verdict).
"""
import json
import os
import re
import shutil
import sys

sys.path.insert(0, os.path.dirname(os.path.abspath(__file__)))
import rustlex  # noqa: E402


BASELINE_SIGS = {}


class Lost(Exception):
    """An anchor or function named by a contract could not be found (inconclusive, exit 2)."""


def parse_contracts(paths):
    """-> list of directives: dict(kind, args, payload(list of (text,line)), src(file), line, optional)"""
    out = []
    for p in paths:
        cur = None
        optional = False
        for ln, line in enumerate(open(p).read().split('\n'), 1):
            if line.startswith('//@'):
                body = line[3:].strip()
                if body == 'optional':
                    optional = True
                    continue
                cur = dict(head=body, payload=[], src=p, line=ln, optional=optional)
                optional = False
                out.append(cur)
            elif cur is not None:
                cur['payload'].append((line, ln))
        # strip trailing blank payload lines
    for d in out:
        while d['payload'] and not d['payload'][-1][0].strip():
            d['payload'].pop()
    return out


_q = r'"((?:[^"\\]|\\.)*)"'


def unq(s):
    out, i = [], 0
    while i < len(s):
        if s[i] == '\\' and i + 1 < len(s):
            n = s[i + 1]
            out.append({'n': '\n', '"': '"', '\\': '\\'}.get(n, '\\' + n))
            i += 2
        else:
            out.append(s[i]); i += 1
    return ''.join(out)


class FileJob:
    def __init__(self, rel, src):
        self.rel = rel
        self.src = src
        self.toks, self.pair, self.fns = rustlex.find_fns(src)
        self.blocks = list(rustlex.find_fns.last_blocks)
        self.renamed = {}
        self.last_rename = None
        self.edits = []  # (pos, end, text, origin, order)
        self.wrap = None
        self.order = 0

    def sig_of(self, f):
        """-> (params [(name, type)], ret) with whitespace-normalised types; receiver kept as ('self', text)"""
        toks = self.toks
        parts, start, j = [], f.params_open + 1, f.params_open + 1
        depth_angle = 0
        while j < f.params_close:
            t = toks[j]
            if t.kind == 'punct' and t.text in ('(', '[', '{'):
                j = self.pair[j] + 1
                continue
            if t.text == '<':
                depth_angle += 1
            elif t.text == '>' :
                depth_angle -= 1
            elif t.text == ',' and depth_angle == 0:
                parts.append((start, j)); start = j + 1
            j += 1
        if start < f.params_close:
            parts.append((start, f.params_close))
        params = []
        for (x, y) in parts:
            text = re.sub(r'\s+', ' ', self.src[toks[x].pos:toks[y - 1].end]).strip()
            if re.match(r'(&\s*(mut\s+)?)?self$', text) or text.startswith('self:') or text.startswith('mut self'):
                params.append(('self', text.replace(' ', '')))
            else:
                name, _, ty = text.partition(':')
                params.append((name.strip(), re.sub(r'\s+', '', ty)))
        ret = re.sub(r'\s+', '', self.src[f.ret_span[0]:f.ret_span[1]]) if f.ret_span else ''
        return params, ret

    def fn(self, qual):
        self.last_rename = None
        m = [f for f in self.fns if f.qual == qual]
        if len(m) == 1:
            return m[0]
        if len(m) == 0 and qual in BASELINE_SIGS.get(self.rel, {}):
            # renamed?  fall back to the unique function of the same impl/trait block with the same signature types
            base = BASELINE_SIGS[self.rel][qual]
            header = qual.rsplit('::', 1)[0] if '::' in qual else ''
            known = set(BASELINE_SIGS[self.rel].keys())
            cands = []
            for f in self.fns:
                if f.qual in known:
                    continue
                h = f.qual.rsplit('::', 1)[0] if '::' in f.qual else ''
                if h != header:
                    continue
                params, ret = self.sig_of(f)
                if [p[1] for p in params] == [p[1] for p in base['params']] and ret == base['ret']:
                    cands.append((f, params))
            if len(cands) == 1:
                f, params = cands[0]
                ren = {old[0]: new[0] for old, new in zip(base['params'], params) if old[0] != new[0] and old[0] != 'self'}
                self.renamed[qual] = dict(now=f.qual, params=ren)
                self.last_rename = ren
                return f
        raise Lost('%s: function `%s` found %d times' % (self.rel, qual, len(m)))

    def add(self, pos, end, text, origin):
        self.order += 1
        self.edits.append((pos, end, text, origin, self.order))

    def body_range(self, f):
        if f.body_open < 0:
            raise Lost('%s: `%s` has no body' % (self.rel, f.qual))
        return self.toks[f.body_open].end, self.toks[f.body_close].pos

    def find_anchor(self, f, anchor):
        lo, hi = (self.toks[f.fn_tok].pos, self.toks[f.body_close].end)
        idxs = [m.start() for m in re.finditer(re.escape(anchor), self.src[lo:hi])]
        if len(idxs) != 1:
            raise Lost('%s: anchor %r occurs %d times in `%s`' % (self.rel, anchor, len(idxs), f.qual))
        return lo + idxs[0]

    def tok_at(self, pos):
        for i, t in enumerate(self.toks):
            if t.pos <= pos < t.end or t.pos >= pos:
                return i
        raise Lost('no token at %d' % pos)

    def stmt_start(self, pos):
        i = self.tok_at(pos)
        j = i - 1
        if self.toks[i].kind == 'punct' and self.toks[i].text in (')', ']', '}'):
            j = self.pair[i] - 1
        while j >= 0:
            t = self.toks[j]
            if t.kind == 'punct':
                if t.text in (')', ']', '}'):
                    # a `}` directly before us at statement level ends the previous statement
                    if t.text == '}':
                        o = self.pair[j]
                        # block statement (if/match/loop) — previous statement ended here
                        return self.toks[j + 1].pos
                    j = self.pair[j] - 1
                    continue
                if t.text in (';', '{'):
                    return self.toks[j + 1].pos
            j -= 1
        return self.toks[0].pos

    def stmt_end(self, pos):
        i = self.tok_at(pos)
        j = i
        n = len(self.toks)
        while j < n:
            t = self.toks[j]
            if t.kind == 'punct':
                if t.text in ('(', '[', '{'):
                    j = self.pair[j] + 1
                    continue
                if t.text == ';':
                    return t.end
                if t.text in (')', ']', '}'):
                    return t.pos
            j += 1
        raise Lost('no statement end after %d' % pos)



# ------------------------------------------------------------------------------------------------
# N4: the text layer.  `format!(LIT, args…)` → `__vfmt_k(&(args)…)`, a generated external_body function
# whose body is the identical `format!` call and whose `ensures` states the documented meaning of the
# literal: the result is the literal's pieces interleaved with the Display text of the arguments.
# ------------------------------------------------------------------------------------------------
def rust_unescape(tok):
    """value of a (non-raw) Rust string literal token"""
    assert tok.startswith('"') and tok.endswith('"')
    s, out, i = tok[1:-1], [], 0
    while i < len(s):
        c = s[i]
        if c != '\\':
            out.append(c); i += 1; continue
        n = s[i + 1]
        if n == 'n': out.append('\n'); i += 2
        elif n == 't': out.append('\t'); i += 2
        elif n == 'r': out.append('\r'); i += 2
        elif n == '0': out.append('\0'); i += 2
        elif n in '\\"\'': out.append(n); i += 2
        elif n == 'x': out.append(chr(int(s[i + 2:i + 4], 16))); i += 4
        elif n == 'u':
            j = s.index('}', i)
            out.append(chr(int(s[i + 3:j], 16))); i = j + 1
        elif n == '\n':
            i += 2
            while i < len(s) and s[i] in ' \t\n\r':
                i += 1
        else:
            raise Lost('unknown escape \\%s in string literal' % n)
    return ''.join(out)


def rust_escape(s):
    out = []
    for c in s:
        if c == '\\': out.append('\\\\')
        elif c == '"': out.append('\\"')
        elif c == '\n': out.append('\\n')
        elif c == '\t': out.append('\\t')
        elif c == '\r': out.append('\\r')
        elif c == '\0': out.append('\\0')
        else: out.append(c)
    return '"' + ''.join(out) + '"'


def parse_format_literal(val):
    """-> list of ('lit', text) / ('arg', name_or_None, spec)"""
    parts, lit, i = [], [], 0
    while i < len(val):
        c = val[i]
        if c == '{':
            if val.startswith('{{', i):
                lit.append('{'); i += 2; continue
            j = val.index('}', i)
            inner = val[i + 1:j]
            name, spec = (inner.split(':', 1) + [''])[:2] if ':' in inner else (inner, '')
            if lit:
                parts.append(('lit', ''.join(lit))); lit = []
            parts.append(('arg', name or None, spec))
            i = j + 1
        elif c == '}':
            if val.startswith('}}', i):
                lit.append('}'); i += 2; continue
            raise Lost('stray } in format literal')
        else:
            lit.append(c); i += 1
    if lit:
        parts.append(('lit', ''.join(lit)))
    return parts


def fmt_rewrite(job, skip_ranges, notes):
    """rewrite every format!( … ) in the wrapped range of job (outside skip_ranges); returns helper text"""
    toks, pair = job.toks, job.pair
    helpers = []
    k = 0
    lo, hi = job.wrap
    for i, t in enumerate(toks):
        if not (t.kind == 'id' and t.text == 'format' and i + 2 < len(toks) and toks[i + 1].text == '!' and toks[i + 2].text == '('):
            continue
        if not (lo <= t.pos < hi) or any(a <= t.pos < b for a, b in skip_ranges):
            continue
        try:
            k = _fmt_site(job, notes, helpers, k, i, t)
        except Lost as e:
            # a format string this pass cannot read is a loss local to its function: the format! stays, Verus cannot read it,
            # the function is demoted by the engine and its clauses are undecided
            fq = None
            for f in job.fns:
                if f.body_open >= 0 and toks[f.body_open].pos <= t.pos < toks[f.body_close].end:
                    fq = f.qual
            if fq is None:
                raise
            notes['lost'].setdefault(fq, []).append(str(e))
    return '\n'.join(helpers)


def _fmt_site(job, notes, helpers, k, i, t):
    toks, pair = job.toks, job.pair
    if True:
        po, pc = i + 2, pair[i + 2]
        # split args at top-level commas
        args, cur_start, j = [], po + 1, po + 1
        while j < pc:
            tt = toks[j]
            if tt.kind == 'punct' and tt.text in ('(', '[', '{'):
                j = pair[j] + 1; continue
            if tt.kind == 'punct' and tt.text == ',':
                args.append((cur_start, j)); cur_start = j + 1
            j += 1
        if cur_start < pc:
            args.append((cur_start, pc))
        if not args or toks[args[0][0]].kind != 'str' or args[0][1] - args[0][0] != 1 or toks[args[0][0]].text.startswith(('r', 'b')):
            raise Lost('%s: format! at line %d does not start with a plain string literal' % (job.rel, rustlex.line_of(job.src, t.pos)))
        lit_tok = toks[args[0][0]].text
        # N4c: a `const NAME: &str = "…";` of the same file captured as `{NAME}` is written out in the literal (same text by
        # the definition of format!: Display of a &str without a format spec is the string itself)
        for cname in sorted(set(re.findall(r'(?<!\{)\{([A-Z][A-Z0-9_]*)\}', lit_tok))):
            cm = re.search(r'\bconst\s+%s\s*:\s*&\s*(?:\'static\s+)?str\s*=\s*"((?:[^"\\]|\\.)*)"\s*;' % cname, job.src)
            if cm:
                lit_tok = lit_tok.replace('{%s}' % cname, cm.group(1).replace('{', '{{').replace('}', '}}'))
                notes.setdefault('fmt_inlined_consts', []).append(dict(file=job.rel, const=cname, line=rustlex.line_of(job.src, t.pos)))
        parts = parse_format_literal(rust_unescape(lit_tok))
        def arg_text(a, b):
            # text of one argument with the edits that fall inside it (hoists, normalisations) already applied
            lo_, hi_ = toks[a].pos, toks[b - 1].end
            inner = sorted([e for e in job.edits if lo_ <= e[0] and e[1] <= hi_ and e[0] < e[1] or (lo_ < e[0] < hi_)], key=lambda e: (e[0], e[4]))
            out, p = [], lo_
            for e in inner:
                out.append(job.src[p:e[0]]); out.append(e[2]); p = e[1]
                job.edits.remove(e)
            out.append(job.src[p:hi_])
            return ''.join(out)
        named_args = {}
        positional = []
        for (a, b) in args[1:]:
            if b - a >= 3 and toks[a].kind == 'id' and toks[a + 1].kind == 'punct' and toks[a + 1].text == '=' and toks[a + 2].text != '=':
                named_args[toks[a].text] = arg_text(a + 2, b)      # `name = expr`
            else:
                positional.append((a, b))
        pos_args = [arg_text(a, b) for (a, b) in positional]
        n_pos = sum(1 for p in parts if p[0] == 'arg' and p[1] is None)
        if n_pos != len(pos_args) or any(p[0] == 'arg' and p[1] is not None and p[1].isdigit() for p in parts):
            raise Lost('%s: format! at line %d: positional arguments do not match the literal' % (job.rel, rustlex.line_of(job.src, t.pos)))
        # parameters: positional a0.. then captured names in order of first appearance
        params = []   # (param_name, call_expr, set(kinds))
        index = {}
        pi = 0
        spec_pieces = []
        new_lit_parts = []
        for p in parts:
            if p[0] == 'lit':
                spec_pieces.append(rust_escape(p[1]) + '@')
                continue
            name, spec = p[1], p[2]
            if name is None:
                pname = 'a%d' % pi
                params.append([pname, pos_args[pi], set()]); index[pname] = len(params) - 1
                pi += 1
            else:
                pname = 'self_' if name == 'self' else (name if not name[0].isupper() else 'c_' + name.lower())
                if pname not in index:
                    params.append([pname, named_args.get(name, name), set()]); index[pname] = len(params) - 1
            ent = params[index[pname]]
            if spec == '':
                ent[2].add('disp'); spec_pieces.append('%s.vdisp()' % pname)
            elif spec == '02x':
                ent[2].add('hex2'); spec_pieces.append('%s.vhex2()' % pname)
            elif spec in ('?', '#?'):
                ent[2].add('debug'); spec_pieces.append('vdebug(%s)' % pname)
            else:
                raise Lost('%s: unsupported format spec {:%s}' % (job.rel, spec))
        k += 1
        hname = '__vfmt_%d' % k
        gens, sig = [], []
        for gi, (pname, expr, kinds) in enumerate(params):
            bounds = []
            if 'disp' in kinds: bounds += ['VDisp', 'core::fmt::Display']
            if 'hex2' in kinds: bounds += ['VDisp', 'core::fmt::LowerHex']
            if 'debug' in kinds: bounds += ['core::fmt::Debug']
            bounds = list(dict.fromkeys(bounds)) + ['?Sized']
            gens.append('F%d: %s' % (gi, ' + '.join(bounds)))
            sig.append('%s: &F%d' % (pname, gi))
        body_lit = lit_tok.replace('{self:', '{self_:').replace('{self}', '{self_}')
        for pn, ex, _k in params:
            if pn.startswith('c_') and ex[:1].isupper():
                body_lit = body_lit.replace('{%s}' % ex, '{%s}' % pn).replace('{%s:' % ex, '{%s:' % pn)
        pos_names = [p[0] for p in params if p[0].startswith('a') and p[0][1:].isdigit()]
        body = 'format!(%s%s)' % (body_lit, ''.join(', ' + n for n in pos_names))
        spec = ' + '.join(spec_pieces) if spec_pieces else 'Seq::<char>::empty()'
        if len(spec_pieces) == 1 and spec_pieces[0].endswith('@') is False:
            spec = 'Seq::<char>::empty() + ' + spec
        line = rustlex.line_of(job.src, t.pos)
        helpers.append(
            '// generated from %s:%d\n#[verifier::external_body]\nfn %s%s(%s) -> (r: String)\n    ensures r@ == %s,\n{ %s }\n'
            % (job.rel, line, hname, ('<' + ', '.join(gens) + '>') if gens else '', ', '.join(sig), spec, body))
        call = '%s(%s)' % (hname, ', '.join('&(%s)' % p[1] for p in params))
        job.add(t.pos, toks[pc].end, call, [dict(kind='normalisation', old='format!', new=hname)])
        notes['fmt_helpers'].append(dict(file=job.rel, line=line, helper=hname, literal=lit_tok))
    return k


def origin_contract(d, ln, clause):
    return dict(kind='contract', file=os.path.basename(d['src']), line=ln, clause=clause)


def rename_idents(text, rename):
    for old, new in (rename or {}).items():
        text = re.sub(r'(?<![A-Za-z0-9_.])%s(?![A-Za-z0-9_])' % re.escape(old), new, text)
    return text


def payload_text(d, tags_out, rename=None):
    """Join payload lines; return text and a per-line origin list (clause tracking)."""
    lines, origins = [], []
    clause = None
    for text, ln in d['payload']:
        if rename and not text.lstrip().startswith('//'):
            for old, new in rename.items():
                text = re.sub(r'(?<![A-Za-z0-9_.])%s(?![A-Za-z0-9_])' % re.escape(old), new, text)
        m = re.match(r'\s*//#\s*(\S+)\s*(?:\[([^\]]*)\])?\s*(.*)$', text)
        if m:
            clause = m.group(1)
            ent = tags_out.setdefault(clause, dict(id=clause, tags=[], note=m.group(3),
                                                   where=d['head'], file=os.path.basename(d['src']), line=ln, text=[]))
            # a clause id used again (e.g. on the proof block that serves a postcondition) adds its property tags
            ent['tags'] += [t for t in (m.group(2) or '').split() if t not in ent['tags']]
        elif clause and text.strip():
            tags_out[clause]['text'].append(text.strip())
        lines.append(text)
        origins.append(origin_contract(d, ln, clause))
    return '\n'.join(lines) + '\n', origins


def scope_of(head):
    """the function a directive is about (None for file-level directives)"""
    m = re.match(r'fn\s+(.+?)(?:\s+->\s+\w+)?$', head)
    if m:
        return m.group(1).strip()
    m = re.match(r'(?:attr|underscore-params)\s+(.+)$', head)
    if m:
        return m.group(1).strip()
    m = re.match(r'in\s+(.+?)\s+(?:before-stmt|after-stmt|after|before|closure)\s+"', head)
    if m:
        return m.group(1).strip()
    m = re.match(r'in\s+(.+?)\s+(?:before-tail|body-start)$', head)
    if m:
        return m.group(1).strip()
    m = re.match(r'(?:replace(?:-ws)?|hoist)\s.*\sin\s+([^"]+)$', head)
    if m:
        return m.group(1).strip()
    return None


def annotate(repo, contracts, out, vacuity=False, demote=(), drop=()):
    global BASELINE_SIGS
    bs = os.path.join(os.path.dirname(os.path.abspath(contracts[0])), 'baseline_sigs.json') if contracts else None
    BASELINE_SIGS = json.load(open(bs)) if bs and os.path.exists(bs) else {}
    directives = parse_contracts(contracts)
    jobs = {}
    clauses = {}
    notes = dict(normalisations=[], external_body=[], wrapped=[], under_contract=[], lost_optional=[], fmt_helpers=[],
                 lost={}, lost_fns=[], demoted=sorted(demote))
    demoted_done = set()
    fmt_files = set()
    hoisted = {}
    cur = None
    tops, appends, crate_tops = {}, {}, {}
    for d in directives:
        head = d['head']
        if cur is not None:
            cur.last_rename = None
        scope = scope_of(head)
        if scope is not None and scope in notes['lost_fns']:
            continue
        if scope is not None and scope in drop:
            # the contract itself no longer type-checks against the function (changed parameter or field types): nothing of it
            # is kept; the function is left outside the verifier and whatever depended on its contract is undecided
            mh = re.search(r'\sas\s+(\w+)\s+in\s', head) if head.startswith('hoist') else None
            if mh:
                hoisted[mh.group(1)] = 'unimplemented!()'
            continue
        if scope is not None and scope in demote:
            # the function fell out of the verifier's reach in an earlier pass of this run: keep only its contract
            # (now an assumption, reported as such) and drop every in-body directive
            if not (head.startswith('fn ') or head.startswith('attr ') or head.startswith('underscore-params ')):
                mh = re.search(r'\sas\s+(\w+)\s+in\s', head) if head.startswith('hoist') else None
                if mh:
                    hoisted[mh.group(1)] = 'unimplemented!()'
                continue
        try:
            m = re.match(r'file\s+(\S+)$', head)
            if m:
                rel = m.group(1)
                if rel not in jobs:
                    path = os.path.join(repo, rel)
                    if not os.path.exists(path):
                        raise Lost('file %s missing' % rel)
                    jobs[rel] = FileJob(rel, open(path).read())
                cur = jobs[rel]
                continue
            if cur is None:
                raise Lost('%s:%d: directive before any //@ file' % (d['src'], d['line']))
            if head == 'wrap' or head.startswith('wrap '):
                m = re.match(r'wrap\s+from\s+' + _q + r'\s+to\s+' + _q + '$', head)
                if m:
                    a, b = unq(m.group(1)), unq(m.group(2))
                    ia = cur.src.find(a)
                    if ia < 0:
                        raise Lost('%s: wrap anchor %r missing' % (cur.rel, a))
                    start = cur.src.rfind('\n', 0, ia) + 1
                    if b == 'EOF':
                        end = len(cur.src)
                    else:
                        ib = cur.src.find(b, ia + len(a))
                        if ib < 0:
                            raise Lost('%s: wrap anchor %r missing' % (cur.rel, b))
                        end = cur.src.rfind('\n', 0, ib) + 1
                else:
                    # after leading inner attributes / mod declarations / blank / comment lines
                    pos = 0
                    for line in cur.src.split('\n'):
                        s = line.strip()
                        if s.startswith('#![') or re.match(r'(pub\s+)?mod\s+\w+;', s) or not s or \
                                (s.startswith('//') and not s.startswith('///')):
                            pos += len(line) + 1
                        else:
                            break
                    start, end = pos, len(cur.src)
                cur.wrap = (start, end)
                notes['wrapped'].append(cur.rel)
                continue
            if head == 'top':
                tops.setdefault(cur.rel, []).append(d)
                continue
            if head == 'fmt':
                fmt_files.add(cur.rel)
                continue
            if head == 'crate_top':
                crate_tops.setdefault(cur.rel, []).append(d)
                continue
            if head == 'append':
                appends.setdefault(cur.rel, []).append(d)
                continue
            m = re.match(r'fn\s+(.+?)(?:\s+->\s+(\w+))?$', head)
            if m:
                f = cur.fn(m.group(1).strip())
                text, orig = payload_text(d, clauses, cur.last_rename if cur is not None else None)
                ins = cur.toks[f.body_open].pos if f.body_open >= 0 else cur.toks[f.body_close].pos
                cur.add(ins, ins, '\n' + text, orig)
                if m.group(2):
                    if f.ret_span is None:
                        raise Lost('%s: `%s` has no return type to name' % (cur.rel, f.qual))
                    a, b = f.ret_span
                    cur.add(a, b, '(%s: %s)' % (m.group(2), cur.src[a:b]), [dict(kind='retname')])
                notes['under_contract'].append(f.qual)
                continue
            m = re.match(r'attr\s+(.+)$', head)
            if m:
                f = cur.fn(m.group(1).strip())
                text, orig = payload_text(d, clauses, cur.last_rename if cur is not None else None)
                cur.add(f.sig_start, f.sig_start, text, orig)
                if 'external_body' in text:
                    notes['external_body'].append(f.qual)
                continue
            m = re.match(r'in\s+(.+?)\s+(before-stmt|after-stmt|after|before)\s+' + _q + '$', head)
            if m:
                f = cur.fn(m.group(1).strip())
                mode, anchor = m.group(2), unq(m.group(3))
                p = cur.find_anchor(f, anchor)
                text, orig = payload_text(d, clauses, cur.last_rename if cur is not None else None)
                if mode == 'before-stmt':
                    ins = cur.stmt_start(p)
                elif mode == 'after-stmt':
                    ins = cur.stmt_end(p)
                    text = '\n' + text
                    orig = orig
                elif mode == 'after':
                    ins = p + len(anchor)
                else:
                    ins = p
                cur.add(ins, ins, text, orig)
                continue
            m = re.match(r'file-(before|after)\s+' + _q + '$', head)
            if m:
                anchor = unq(m.group(2))
                idxs = [x.start() for x in re.finditer(re.escape(anchor), cur.src)]
                if len(idxs) != 1:
                    raise Lost('%s: file anchor %r occurs %d times' % (cur.rel, anchor, len(idxs)))
                text, orig = payload_text(d, clauses, cur.last_rename if cur is not None else None)
                ins = idxs[0] if m.group(1) == 'before' else idxs[0] + len(anchor)
                cur.add(ins, ins, text, orig)
                continue
            m = re.match(r'block\s+(.+?)\s+(start|end)$', head)
            if m:
                bl = [b for b in cur.blocks if b[0] == m.group(1).strip()]
                if len(bl) != 1:
                    raise Lost('%s: block `%s` found %d times' % (cur.rel, m.group(1), len(bl)))
                text, orig = payload_text(d, clauses, cur.last_rename if cur is not None else None)
                if m.group(2) == 'start':
                    ins = cur.toks[bl[0][1]].end
                    cur.add(ins, ins, '\n' + text, orig)
                else:
                    ins = cur.toks[bl[0][2]].pos
                    cur.add(ins, ins, text, orig)
                continue
            m = re.match(r'in\s+(.+?)\s+closure\s+' + _q + '$', head)
            if m:
                # contract on a closure: payload (`-> (r: T) ensures …`) goes after the parameter list named by the anchor;
                # an expression body is wrapped in braces (required by Rust once a return type is written)
                f = cur.fn(m.group(1).strip())
                anchor = unq(m.group(2))
                p = cur.find_anchor(f, anchor)
                b = cur.tok_at(p + len(anchor))
                text, orig = payload_text(d, clauses, cur.last_rename)
                if cur.toks[b].text == '{':
                    cur.add(cur.toks[b].pos, cur.toks[b].pos, text, orig)
                else:
                    e = b
                    while e < len(cur.toks):
                        t = cur.toks[e]
                        if t.kind == 'punct' and t.text in ('(', '[', '{'):
                            e = cur.pair[e] + 1
                            continue
                        if t.kind == 'punct' and t.text in (',', ')', ']', '}', ';'):
                            break
                        e += 1
                    cur.add(cur.toks[b].pos, cur.toks[b].pos, text + ' { ', orig + [dict(kind='wrapper')])
                    cur.add(cur.toks[e - 1].end, cur.toks[e - 1].end, ' }', [dict(kind='wrapper')])
                continue
            m = re.match(r'in\s+(.+?)\s+before-tail$', head)
            if m:
                f = cur.fn(m.group(1).strip())
                if f.body_open < 0:
                    raise Lost('%s: `%s` has no body' % (cur.rel, f.qual))
                # start of the last statement / tail expression of the body
                j = f.body_close - 1
                if cur.toks[j].text == ';':
                    j -= 1
                ins = cur.stmt_start(cur.toks[j].pos) if j > f.body_open else cur.toks[f.body_open].end
                # stmt_start looks left from the token *containing* pos; make sure we stay inside the body
                ins = max(ins, cur.toks[f.body_open].end)
                text, orig = payload_text(d, clauses, cur.last_rename if cur is not None else None)
                cur.add(ins, ins, text, orig)
                continue
            m = re.match(r'in\s+(.+?)\s+body-start$', head)
            if m:
                f = cur.fn(m.group(1).strip())
                a, _ = cur.body_range(f)
                text, orig = payload_text(d, clauses, cur.last_rename if cur is not None else None)
                mr = re.search(r'@REVEAL_LITERALS\((.*?)\)@', text)
                if mr:
                    # contents of the listed specification literals and of every short string literal in the body, so that
                    # text equalities are decided by content, not by how the code splits its constant pieces
                    lits = re.findall(r'"(?:[^"\\]|\\.)*"', mr.group(1))
                    for t in cur.toks[f.body_open:f.body_close]:
                        if t.kind == 'str' and t.text.startswith('"') and len(t.text) <= 42 and '{' not in t.text and t.text not in lits:
                            lits.append(t.text)
                    text = text.replace(mr.group(0), ' '.join('reveal_strlit(%s);' % l for l in lits))
                cur.add(a, a, '\n' + text, orig)
                continue
            m = re.match(r'underscore-params\s+(.+)$', head)
            if m:
                # N3: Verus rejects `_` as a parameter pattern; give each one a name (unused, so the same program)
                f = cur.fn(m.group(1).strip())
                k = 0
                depth = 0
                for ti in range(f.params_open + 1, f.params_close):
                    t = cur.toks[ti]
                    if t.kind == 'punct' and t.text in ('(', '[', '{', '<'):
                        depth += 1
                    elif t.kind == 'punct' and t.text in (')', ']', '}', '>'):
                        depth -= 1
                    elif depth == 0 and t.kind == 'id' and t.text == '_' and cur.toks[ti + 1].text == ':' \
                            and cur.toks[ti - 1].text in ('(', ','):
                        cur.add(t.pos, t.end, '_p%d' % k, [dict(kind='normalisation', old='_', new='_p%d' % k)])
                        k += 1
                notes['normalisations'].append(dict(file=cur.rel, old='_ (parameter pattern)', new='_pN', count=k, scope=f.qual))
                continue
            m = re.match(r'hoist\s+' + _q + r'\s*=>\s*' + _q + r'\s+as\s+(\w+)\s+in\s+(.+)$', head)
            if m:
                # N5: a sub-expression the verifier cannot read is hoisted, text unchanged, into an external function
                old, new, hname = unq(m.group(1)), unq(m.group(2)), m.group(3)
                f = cur.fn(m.group(4).strip())
                old, new = rename_idents(old, cur.last_rename), rename_idents(new, cur.last_rename)
                lo, hi = cur.toks[f.fn_tok].pos, cur.toks[f.body_close].end
                body = cur.src[lo:hi]
                # match modulo whitespace
                pat = r'\s*'.join(re.escape(x) for x in re.findall(r'\S+', old))
                ms = list(re.finditer(pat, body))
                if len(ms) != 1:
                    raise Lost('%s: hoisted expression %r occurs %d times in `%s`' % (cur.rel, old[:40], len(ms), f.qual))
                cur.add(lo + ms[0].start(), lo + ms[0].end(), new, [dict(kind='normalisation', old=old, new=new)])
                hoisted[hname] = body[ms[0].start():ms[0].end()]
                notes['normalisations'].append(dict(file=cur.rel, old=old, new=new, count=1, scope=f.qual,
                                                    note='hoisted into external fn with identical text'))
                continue
            m = re.match(r'replace(-ws)?\s+(\d+)\s+' + _q + r'\s*=>\s*' + _q + r'(?:\s+in\s+(.+))?$', head)
            if m:
                ws = bool(m.group(1))
                m = re.match(r'replace(?:-ws)?\s+(\d+)\s+' + _q + r'\s*=>\s*' + _q + r'(?:\s+in\s+(.+))?$', head)
                cnt, old, new = int(m.group(1)), unq(m.group(2)), unq(m.group(3))
                if m.group(4):
                    f = cur.fn(m.group(4).strip())
                    old, new = rename_idents(old, cur.last_rename), rename_idents(new, cur.last_rename)
                    lo, hi = cur.toks[f.fn_tok].pos, cur.toks[f.body_close].end
                else:
                    lo, hi = 0, len(cur.src)
                pat = r'\s*'.join(re.escape(x) for x in re.findall(r'\S+', old)) if ws else re.escape(old)
                ms = list(re.finditer(pat, cur.src[lo:hi]))
                if len(ms) != cnt:
                    raise Lost('%s: normalisation %r expected %d matches, found %d' % (cur.rel, old, cnt, len(ms)))
                for x in ms:
                    cur.add(lo + x.start(), lo + x.end(), new, [dict(kind='normalisation', old=old, new=new)])
                notes['normalisations'].append(dict(file=cur.rel, old=old, new=new, count=cnt,
                                                    scope=m.group(4) or 'file'))
                continue
            raise Lost('%s:%d: unknown directive %r' % (d['src'], d['line'], head))
        except Lost as e:
            if d.get('optional'):
                notes['lost_optional'].append(str(e))
                continue
            if scope is not None:
                # local loss: the rest of the crate is still checked; obligations of this function are decided
                # only if its proof still goes through without the lost piece
                if head.startswith('fn ') and 'found 0 times' in str(e):
                    notes['lost_fns'].append(scope)
                notes['lost'].setdefault(scope, []).append(str(e))
                mh = re.search(r'\sas\s+(\w+)\s+in\s', head) if head.startswith('hoist') else None
                if mh:
                    hoisted.setdefault(mh.group(1), 'unimplemented!()')
                continue
            raise

    for rel, job in jobs.items():
        for f in job.fns:
            if (f.qual in demote or f.qual in drop) and f.qual not in notes['external_body'] and f.body_open >= 0:
                job.add(f.sig_start, f.sig_start, '#[verifier::external_body]\n', [dict(kind='demoted', fn=f.qual)])
                notes['external_body'].append(f.qual)

    if vacuity:
        # vacuity pass: `assert(false)` at the start of every function under contract must FAIL; where it is
        # proved, the preconditions / broadcast axioms in scope are contradictory and every proof there is void
        seen = set()
        for rel, job in jobs.items():
            for f in job.fns:
                if f.qual in notes['under_contract'] and f.body_open >= 0 and f.qual not in notes['external_body'] and (rel, f.qual) not in seen:
                    seen.add((rel, f.qual))
                    p = job.toks[f.body_open].end
                    job.edits.append((p, p, '\n        proof { assert(false); }\n', [dict(kind='vacuity', fn=f.qual)], 10 ** 8))
        notes['vacuity_probes'] = sorted(q for (_, q) in seen)

    # N8: an elided lifetime in a `const`/`static` item type is 'static by definition; Verus's macro wants it spelled out
    for rel, job in jobs.items():
        if job.wrap is None:
            continue
        for m_ in re.finditer(r'\b(?:const|static)\s+\w+\s*:\s*&(?!\s*\')', job.src):
            if job.wrap[0] <= m_.start() < job.wrap[1]:
                job.add(m_.end(), m_.end(), "'static ", [dict(kind='normalisation', old='&', new="&'static ")])
                notes['normalisations'].append(dict(file=rel, old='const X: &T', new="const X: &'static T", count=1, scope='file'))

    # text layer: rewrite format! calls in verified functions of files that asked for it
    fmt_helper_text = {}
    for rel in sorted(fmt_files):
        job = jobs[rel]
        if job.wrap is None:
            raise Lost('%s: //@ fmt needs //@ wrap' % rel)
        skip = []
        for f in job.fns:
            if f.qual in notes['external_body'] and f.body_open >= 0:
                skip.append((job.toks[f.fn_tok].pos, job.toks[f.body_close].end))
        fmt_helper_text[rel] = fmt_rewrite(job, skip, notes)

    # wrappers, tops, appends
    for rel, job in jobs.items():
        for d in crate_tops.get(rel, []):
            t, o = payload_text(d, clauses)
            job.edits.append((0, 0, t, o, -2))
        if job.wrap is None:
            continue
        start, end = job.wrap
        top_text, top_orig = '', []
        for d in tops.get(rel, []):
            t, o = payload_text(d, clauses)
            top_text += t
            top_orig += o
        job.order += 1
        job.edits.append((start, start, top_text + 'verus! {\n', top_orig + [dict(kind='wrapper')], -1))
        app_text, app_orig = '\n', [dict(kind='wrapper')]
        for d in appends.get(rel, []):
            t, o = payload_text(d, clauses)
            for hn, htext in hoisted.items():
                t = t.replace('@HOISTED(%s)@' % hn, ' '.join(htext.split()))
            app_text += t
            app_orig += o
        if fmt_helper_text.get(rel):
            app_text += '\n// ---- generated format! helpers (text layer, N4) ----\n' + fmt_helper_text[rel]
            app_orig += [dict(kind='fmtgen')] * (fmt_helper_text[rel].count('\n') + 3)
        app_text += '} // verus!\n'
        app_orig += [dict(kind='wrapper')]
        job.edits.append((end, end, app_text, app_orig, 10 ** 9))

    # apply
    if os.path.exists(out):
        shutil.rmtree(out)
    shutil.copytree(os.path.join(repo, 'src'), os.path.join(out, 'src'))
    for extra in ('Cargo.toml', 'Cargo.lock'):
        if os.path.exists(os.path.join(repo, extra)):
            shutil.copy(os.path.join(repo, extra), os.path.join(out, extra))
    srcmap = {}
    fnranges = {}
    for rel, job in jobs.items():
        edits = sorted(job.edits, key=lambda e: (e[0], e[4]))
        pieces = []  # (text, origin_fn(lineoffset)->origin)
        pos = 0
        src = job.src
        outmap_pos = []  # (orig_pos, out_pos) breakpoints
        out_len = 0
        for (a, b, text, orig, _) in edits:
            if a < pos:
                raise Lost('%s: overlapping edits at %d' % (rel, a))
            seg = src[pos:a]
            pieces.append(('src', seg, pos))
            out_len += len(seg)
            pieces.append(('ins', text, orig))
            outmap_pos.append((a, b, out_len, len(text)))
            out_len += len(text)
            pos = b
        pieces.append(('src', src[pos:], pos))
        result = ''.join(p[1] for p in pieces)
        with open(os.path.join(out, rel), 'w') as fh:
            fh.write(result)
        # line map
        linemap = []
        cur_line_origin = None
        out_line = 1
        origins_by_line = {}
        for kind, text, info in pieces:
            if kind == 'src':
                base_line = src.count('\n', 0, info) + 1
                k = 0
                for ch_i, seg_line in enumerate(text.split('\n')):
                    ln = out_line + ch_i
                    if seg_line.strip() or ln not in origins_by_line:
                        origins_by_line.setdefault(ln, dict(kind='src', file=rel, line=base_line + ch_i))
                        if seg_line.strip():
                            origins_by_line[ln] = dict(kind='src', file=rel, line=base_line + ch_i)
                out_line += text.count('\n')
            else:
                tl = text.split('\n')
                # origins: list aligned with payload lines (may be offset by a leading '\n')
                orig = info
                off = 1 if text.startswith('\n') and len(orig) >= 1 and orig[0].get('kind') == 'contract' else 0
                for ch_i, seg_line in enumerate(tl):
                    ln = out_line + ch_i
                    oi = ch_i - off
                    if seg_line.strip():
                        if 0 <= oi < len(orig):
                            origins_by_line[ln] = orig[oi]
                        elif orig:
                            origins_by_line[ln] = orig[-1]
                out_line += text.count('\n')
        srcmap[rel] = {str(k): v for k, v in sorted(origins_by_line.items())}

        def map_pos(p):
            shift = 0
            for (a, b, outp, tl) in outmap_pos:
                if a <= p:
                    shift = (outp + tl) - b if b <= p else (outp - a)
                    if b > p:
                        break
                else:
                    break
            return p + shift

        fr = []
        for f in job.fns:
            s = map_pos(job.toks[f.fn_tok].pos)
            e = map_pos(job.toks[f.body_close].end)
            fr.append(dict(qual=f.qual, start=result.count('\n', 0, s) + 1, end=result.count('\n', 0, e) + 1,
                           repo_line=rustlex.line_of(src, job.toks[f.fn_tok].pos),
                           in_wrap=bool(job.wrap and job.wrap[0] <= job.toks[f.fn_tok].pos < job.wrap[1]),
                           has_body=f.body_open >= 0))
        fnranges[rel] = fr
    notes['renamed'] = {rel: job.renamed for rel, job in jobs.items() if job.renamed}
    # functions that exist now but not in the baseline and carry no contract (e.g. an extracted helper): callers see
    # nothing about their result, so a caller's failing proof is undecided rather than a violation
    new_fns = {}
    notes['dropped'] = sorted(drop)
    for rel, job in jobs.items():
        for f in job.fns:
            if f.qual in drop:
                new_fns[f.name] = f.qual
    for rel, job in jobs.items():
        if job.wrap is None:
            continue
        renamed_now = set(v['now'] for v in job.renamed.values())
        for f in job.fns:
            if f.qual not in BASELINE_SIGS.get(rel, {}) and f.qual not in renamed_now and f.qual not in notes['under_contract'] \
                    and job.wrap[0] <= job.toks[f.fn_tok].pos < job.wrap[1]:
                new_fns[f.name] = f.qual
    callers = {}
    for rel, job in jobs.items():
        for f in job.fns:
            if f.body_open < 0:
                continue
            body = job.src[job.toks[f.body_open].pos:job.toks[f.body_close].end]
            for nm, q in new_fns.items():
                if q != f.qual and re.search(r'(?<![A-Za-z0-9_])%s\s*\(' % re.escape(nm), body):
                    callers.setdefault(f.qual, []).append(q)
    notes['new_uncontracted'] = sorted(new_fns.values())
    notes['calls_uncontracted'] = callers
    meta = dict(srcmap=srcmap, fnranges=fnranges, clauses=clauses, notes=notes)
    with open(os.path.join(out, 'annotate.json'), 'w') as fh:
        json.dump(meta, fh, indent=1)
    return meta


def main():
    import argparse
    ap = argparse.ArgumentParser()
    ap.add_argument('--repo', default='/repo')
    ap.add_argument('--out', required=True)
    ap.add_argument('contracts', nargs='+')
    a = ap.parse_args()
    try:
        meta = annotate(a.repo, a.contracts, a.out)
    except (Lost, rustlex.LexError) as e:
        print('annotate: LOST-ANCHOR: %s' % e, file=sys.stderr)
        sys.exit(2)
    print('annotated %d files, %d clauses' % (len(meta['srcmap']), len(meta['clauses'])))


if __name__ == '__main__':
    main()
