#!/bin/bash
# Build /repo's dependency rlibs with Verus's pinned toolchain into /verif/.cache/vdeps (offline).
# Re-run automatically by ./check when Cargo.lock changes.
set -euo pipefail
HERE="$(cd "$(dirname "$0")/.." && pwd)"
REPO="${VERIF_REPO:-/repo}"
OUT="$HERE/.cache/vdeps"
HASH="$(cat "$REPO/Cargo.lock" "$REPO/Cargo.toml" | sha256sum | cut -d' ' -f1)"
if [ -f "$OUT/.hash" ] && [ "$(cat "$OUT/.hash")" = "$HASH" ] && ls "$OUT"/deps/libwinnow-*.rlib >/dev/null 2>&1; then
  exit 0
fi
rm -rf "$OUT"; mkdir -p "$OUT/crate/src"
cp "$REPO/Cargo.lock" "$OUT/crate/"
# same manifest, no dev-dependencies needed, empty lib
python3 - "$REPO/Cargo.toml" "$OUT/crate/Cargo.toml" <<'PY'
import sys,re
s=open(sys.argv[1]).read()
s=re.sub(r'\[dev-dependencies\].*?(?=\n\[|\Z)','',s,flags=re.S)
open(sys.argv[2],'w').write(s)
PY
echo "" > "$OUT/crate/src/lib.rs"
( cd "$OUT/crate" && CARGO_NET_OFFLINE=true RUSTUP_TOOLCHAIN=1.98.1-x86_64-unknown-linux-gnu \
  cargo build --offline --target-dir "$OUT/target" >"$OUT/build.log" 2>&1 ) || { cat "$OUT/build.log"; exit 1; }
mkdir -p "$OUT/deps"; cp "$OUT"/target/debug/deps/*.rlib "$OUT"/target/debug/deps/*.so "$OUT/deps/" 2>/dev/null || true
cp "$OUT"/target/debug/deps/*.rmeta "$OUT/deps/" 2>/dev/null || true
rm -rf "$OUT/target"
echo "$HASH" > "$OUT/.hash"
