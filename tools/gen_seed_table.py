#!/usr/bin/env python3
"""Regenerate the table of seeded changes in DESIGN.md (§8) from seeded/*/meta.json.  The one-line description of each change is
meta['change'] (written by hand when the seed is stored); outcome / detecting obligations / replayed come from seed_matrix.py."""
import glob, json, os, re
HERE = os.path.dirname(os.path.dirname(os.path.abspath(__file__)))
rows, n, obsolete, replayed, bounded_only, incon = [], 0, 0, 0, [], []
for d in sorted(glob.glob(os.path.join(HERE, 'seeded', '*'))):
    m = json.load(open(os.path.join(d, 'meta.json')))
    n += 1
    out = m.get('outcome', 'not run')
    det = m.get('detected_by') or []
    if out.startswith('obsolete'):
        obsolete += 1
        o = 'obsolete (' + out.split(':', 1)[-1].strip() + ')'
    elif out == 'VIOLATION':
        only_b = all(x.startswith('BOUNDED.') for x in det)
        o = '**VIOLATION**' + (' (bounded stand-in only)' if only_b else '') + (', input replayed' if m.get('replayed') else '')
        replayed += 1 if m.get('replayed') else 0
        if only_b:
            bounded_only.append(m['seed'])
    else:
        o = out
        incon.append(m['seed'])
    dets = ', '.join('`%s`' % x.replace('|', '\\|') for x in det[:3]) + (' …' if len(det) > 3 else '')
    rows.append('| %s | %s | %s | %s | %s |' % (m['seed'], m['property'], m.get('change', '(see notes.md)').replace('|', '\\|'), o, dets))
table = '| seed | property | change | outcome | detecting obligation |\n|---|---|---|---|---|\n' + '\n'.join(rows) + '\n'
live = n - obsolete
tot = ('Totals: %d seeds, %d obsolete; %d of the %d live ones are **reported as violations** (%d with a concrete input replayed through the public API); '
       '%d only by a bounded stand-in (%s)%s.' % (n, obsolete, live - len(incon), live, replayed, len(bounded_only), ', '.join(bounded_only),
                                                  ('; not decided or missed: ' + ', '.join(incon)) if incon else '; none is inconclusive or silently passed in the final state'))
p = os.path.join(HERE, 'DESIGN.md')
s = open(p).read()
s2 = re.sub(r'\| seed \| property \| change \| outcome \| detecting obligation \|\n(?:\|.*\n)+', lambda _m: table, s, count=1)
s2 = re.sub(r'\nTotals: \d+ seeds,[^\n]*', lambda _m: '\n' + tot, s2, count=1)
open(p, 'w').write(s2)
print(tot)
