#!/usr/bin/env python3
"""Record what the current tree answers on the recorded corpus, as one digest per chunk of 500 requests (golden/corpus.json).
Run it only on a tree on which every check passes with no undecided obligation: the file then stands for "the behaviour of the last
fully verified tree on these inputs".  The engine consults it in one situation only: before accepting an undecided obligation as
bounded-only (see DESIGN §3.6) it requires that the current tree still answers the whole corpus as recorded."""
import hashlib, json, os, re, shutil, sys, tempfile
HERE = os.path.dirname(os.path.dirname(os.path.abspath(__file__)))
sys.path.insert(0, os.path.join(HERE, 'tools'))
import witness


def corpus():
    os.environ['VERIF_SEED_GOLDEN'] = '1'
    reqs, seen = [], set()
    saved = os.environ.get('VERIF_SEED')
    os.environ['VERIF_SEED'] = '0'
    witness.TIER = 'quick'
    try:
        fams = (witness.family_parse_total, witness.family_parse_numbers, witness.family_options, witness.family_numbers, witness.family_refusal,
                witness.family_hostile, witness.family_table, witness.family_panics, witness.family_long, witness.family_ast, witness.family_perm,
                witness.family_grammar, witness.family_parse_refusal, witness.family_queries, witness.family_units, witness.family_noninterference,
                witness.family_structure, witness.family_matchers, witness.family_wrap_body, witness.family_ast_wrap, witness.family_ast_table, witness.family_determinism)
        for fam in fams:
            for c in fam():
                for op_, inp_ in [(c['op'], c['input'])] + ([c['also']] if c.get('also') else []) + list(c.get('also3', ())):
                    r = (op_,) + tuple(inp_.split('\t'))
                    if r not in seen:
                        seen.add(r); reqs.append(r)
    finally:
        if saved is None:
            os.environ.pop('VERIF_SEED', None)
        else:
            os.environ['VERIF_SEED'] = saved
    return reqs


def digests(repo, scratch):
    binary = witness.build_replayer(repo, scratch)
    if not binary:
        return None
    reqs = corpus()
    outs = witness.run_requests(binary, reqs)
    if len(outs) != len(reqs):
        return None
    norm = lambda g: [re.sub(r'\(- \d{9,12} \(', '(- NOW (', x) for x in g]
    chunks = []
    for i in range(0, len(reqs), 500):
        h = hashlib.sha256()
        for r, o in zip(reqs[i:i + 500], outs[i:i + 500]):
            h.update(repr((r, norm(o))).encode('utf-8', 'replace'))
        chunks.append(h.hexdigest()[:24])
    return dict(requests=len(reqs), chunk=500, digests=chunks)


if __name__ == '__main__':
    repo = os.environ.get('VERIF_REPO', '/repo')
    scratch = tempfile.mkdtemp(prefix='golden.', dir=os.environ.get('TMPDIR', '/var/tmp'))
    try:
        d = digests(repo, scratch)
    finally:
        shutil.rmtree(scratch, ignore_errors=True)
    if d is None:
        sys.exit('could not build / run the replay crate')
    os.makedirs(os.path.join(HERE, 'golden'), exist_ok=True)
    import subprocess
    d['repo_head'] = subprocess.run(['git', '-C', repo, 'rev-parse', 'HEAD'], stdout=subprocess.PIPE, text=True).stdout.strip()
    json.dump(d, open(os.path.join(HERE, 'golden', 'corpus.json'), 'w'), indent=0)
    print('recorded %d requests in %d chunks for %s' % (d['requests'], len(d['digests']), d['repo_head'][:12]))
