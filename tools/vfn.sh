#!/bin/bash
# dev helper: vfn.sh <scratch> <module> <function> [args]  — verify one function of an annotated scratch crate
cd "$1" || exit 2; M="$2"; F="$3"; shift 3
D=/verif/.cache/vdeps/deps; EXT=""; for c in bitflags log thiserror winnow instant; do EXT="$EXT --extern $c=$(ls $D/lib$c-*.rlib | head -1)"; done
verus src/lib.rs --crate-type=lib --crate-name lipe_find_parser --edition 2021 -L dependency=$D $EXT --verify-only-module "$M" --verify-function "$F" "$@" 2>&1 | grep -v -E "autoderive|^WARNING"
