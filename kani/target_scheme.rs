// Kani harnesses for src/scheme/target_scheme.rs (appended to that module under #[cfg(kani)]).
#[cfg(kani)]
mod verif_kani {
    use super::*;

    //@LIFTED@

    /// C03/C02: the file-type mask used by -type is S_IFMT
    #[kani::proof]
    #[kani::unwind(17)]
    fn c03_ifmt_bits() {
        assert!(lifted_ifmt_bits() == 0o170000);
        kani::cover!(true);
    }

    /// C08: the mask of the `all twelve permission bits equal` check is 07777
    #[kani::proof]
    #[kani::unwind(17)]
    fn c08_perm_mask() {
        assert!(lifted_perm_mask() == 0o7777);
        kani::cover!(true);
    }
}
