// Kani harnesses for src/find_parser/filetype.rs and FileType::octal (appended under #[cfg(kani)]).
#[cfg(kani)]
mod verif_kani {
    use super::*;

    //@LIFTED@

    /// C03: every type letter the combinator admits (`one_of("bcdpfls")`) has an arm; and the type
    /// bits each file type denotes are the S_IF* constants of stat(2).
    #[kani::proof]
    fn c03_filetype_table() {
        let sel: u8 = kani::any();
        kani::assume(sel < 7);
        let c = ['b', 'c', 'd', 'p', 'f', 'l', 's'][sel as usize];
        let t = lifted_type_letter(c);
        kani::cover!(sel == 6);
        let bits = t.octal().bits();
        let want = match c {
            'b' => 0o060000,
            'c' => 0o020000,
            'd' => 0o040000,
            'p' => 0o010000,
            'f' => 0o100000,
            'l' => 0o120000,
            _ => 0o140000,
        };
        assert!(bits == want);
    }
}
