// Kani harnesses for src/find_parser/permission.rs (appended to that module under #[cfg(kani)]).
// `lifted_*` functions are generated on every run from the anchored fragments of the real file
// (tools/kani_run.py); nothing here re-implements library code.  `chmod_*` is the specification,
// written from chmod's rules as the property states them.
#[cfg(kani)]
mod verif_kani {
    use super::*;

    //@LIFTED@

    const RWX_U: u32 = 0o700;
    const RWX_G: u32 = 0o070;
    const RWX_O: u32 = 0o007;
    const R_ALL: u32 = 0o444;
    const W_ALL: u32 = 0o222;
    const X_ALL: u32 = 0o111;

    fn who_bits(u: bool, g: bool, o: bool) -> u32 {
        (if u { RWX_U } else { 0 }) | (if g { RWX_G } else { 0 }) | (if o { RWX_O } else { 0 })
    }

    fn perm_bits(r: bool, w: bool, x: bool) -> u32 {
        (if r { R_ALL } else { 0 }) | (if w { W_ALL } else { 0 }) | (if x { X_ALL } else { 0 })
    }

    /// chmod's rule for one clause `who op perm` applied to `mode`
    fn chmod(op: char, who: u32, perm: u32, mode: u32) -> u32 {
        match op {
            '+' => mode | (who & perm),
            '-' => mode & !(who & perm),
            _ => (mode & !who) | (who & perm),
        }
    }

    fn any_clause() -> (char, u32, u32) {
        let (u, g, o): (bool, bool, bool) = (kani::any(), kani::any(), kani::any());
        let (r, w, x): (bool, bool, bool) = (kani::any(), kani::any(), kani::any());
        kani::assume(u || g || o);
        kani::assume(r || w || x);
        let op_sel: u8 = kani::any();
        kani::assume(op_sel < 3);
        let op = match op_sel {
            0 => '+',
            1 => '-',
            _ => '=',
        };
        (op, who_bits(u, g, o), perm_bits(r, w, x))
    }

    fn check_clause(op: char) {
        let (u, g, o): (bool, bool, bool) = (kani::any(), kani::any(), kani::any());
        let (r, w, x): (bool, bool, bool) = (kani::any(), kani::any(), kani::any());
        kani::assume(u || g || o);
        kani::assume(r || w || x);
        let who = who_bits(u, g, o);
        let perm = perm_bits(r, w, x);
        let mode: u32 = kani::any();
        // modes reachable from 0 by clauses over ugoa/rwx stay within the nine rwx bits
        kani::assume(mode & !0o777 == 0);
        let clause = lifted_clause_ctor(op, Mode::from_bits(who).unwrap(), Mode::from_bits(perm).unwrap());
        let got = clause.update(Mode::from_bits(mode).unwrap()).bits();
        kani::cover!(got != mode, "the clause can change the mode");
        assert!(got == chmod(op, who, perm, mode));
    }

    /// C08: `who+perm` adds exactly who∧perm
    #[kani::proof]
    #[kani::unwind(17)]
    fn c08_clause_add() {
        check_clause('+');
    }

    /// C08: `who-perm` removes exactly who∧perm
    #[kani::proof]
    #[kani::unwind(17)]
    fn c08_clause_del() {
        check_clause('-');
    }

    /// Not an obligation: characterises the recorded known finding F4 exactly (the library computes
    /// mode & !(who & !perm) for a `-` clause).  While this holds, a failure of c08_clause_del is the
    /// known finding; if the code changes to anything else that is still wrong, this fails too and
    /// the violation is reported as new.
    #[kani::proof]
    #[kani::unwind(17)]
    fn c08_known_defect_del_clause() {
        let (u, g, o): (bool, bool, bool) = (kani::any(), kani::any(), kani::any());
        let (r, w, x): (bool, bool, bool) = (kani::any(), kani::any(), kani::any());
        kani::assume(u || g || o);
        kani::assume(r || w || x);
        let who = who_bits(u, g, o);
        let perm = perm_bits(r, w, x);
        let mode: u32 = kani::any();
        kani::assume(mode & !0o777 == 0);
        let clause = lifted_clause_ctor('-', Mode::from_bits(who).unwrap(), Mode::from_bits(perm).unwrap());
        let got = clause.update(Mode::from_bits(mode).unwrap()).bits();
        kani::cover!(got != mode);
        assert!(got == mode & !(who & !perm));
    }

    /// C08: `who=perm` sets the who bits to who∧perm and leaves the others
    #[kani::proof]
    #[kani::unwind(17)]
    fn c08_clause_set() {
        check_clause('=');
    }

    /// C08: the letters denote chmod's masks
    #[kani::proof]
    #[kani::unwind(17)]
    fn c08_value_table() {
        assert!(Permission::value('u').bits() == RWX_U);
        assert!(Permission::value('g').bits() == RWX_G);
        assert!(Permission::value('o').bits() == RWX_O);
        assert!(Permission::value('a').bits() == 0o777);
        assert!(Permission::value('r').bits() == R_ALL);
        assert!(Permission::value('w').bits() == W_ALL);
        assert!(Permission::value('x').bits() == X_ALL);
        kani::cover!(true);
    }

    /// C08: clauses are applied in order, starting from mode 0: the fold's seed is the empty mode
    /// and its step applies the next clause to the accumulated mode (whatever the clause is)
    #[kani::proof]
    #[kani::unwind(17)]
    fn c08_fold_seed_and_step() {
        assert!(lifted_fold_seed().bits() == 0);
        let (op, who, perm) = any_clause();
        let mode: u32 = kani::any();
        kani::assume(mode & !0o777 == 0);
        let clause = lifted_clause_ctor(op, Mode::from_bits(who).unwrap(), Mode::from_bits(perm).unwrap());
        let acc = Mode::from_bits(mode).unwrap();
        let stepped = lifted_fold_step(acc, &clause).bits();
        kani::cover!(stepped != mode);
        assert!(stepped == clause.update(acc).bits());
    }

    /// C08/C03: an octal argument denotes exactly the bits of its value, and a value with bits
    /// outside the twelve permission bits is refused (no panic), for every u32
    #[kani::proof]
    #[kani::unwind(17)]
    fn c08_octal_bits() {
        let bits: u32 = kani::any();
        let r = lifted_octal_to_permission(bits);
        kani::cover!(r.is_some());
        kani::cover!(r.is_none());
        match r {
            Some(p) => assert!(p.0.bits() == bits && bits & !0o7777 == 0),
            None => assert!(bits & !0o7777 != 0),
        }
    }
}
