// Kani harnesses for the unit-letter tables of src/find_parser/size.rs (appended under #[cfg(kani)]).
#[cfg(kani)]
mod verif_kani {
    use super::*;

    //@LIFTED@

    /// C07/C03: every unit letter the combinator admits (`one_of("bcwkMGT")`) selects its variant,
    /// carries the count unchanged, and the catch-all arm is dead.
    #[kani::proof]
    fn c07_size_unit_table() {
        let num: u64 = kani::any();
        let sel: u8 = kani::any();
        kani::assume(sel < 7);
        let unit = ['b', 'c', 'w', 'k', 'M', 'G', 'T'][sel as usize];
        let s = lifted_size_unit((num, unit));
        kani::cover!(sel == 6);
        let ok = match (unit, &s) {
            ('b', Size::Block(n)) => *n == num,
            ('c', Size::Byte(n)) => *n == num,
            ('w', Size::Word(n)) => *n == num,
            ('k', Size::KiloByte(n)) => *n == num,
            ('M', Size::MegaByte(n)) => *n == num,
            ('G', Size::GigaByte(n)) => *n == num,
            ('T', Size::TeraByte(n)) => *n == num,
            _ => false,
        };
        assert!(ok);
    }
}
