// Kani harness for the unit-letter table of src/find_parser/timespec.rs (appended under #[cfg(kani)]).
#[cfg(kani)]
mod verif_kani {
    use super::*;

    //@LIFTED@

    /// C07/C03: every unit letter the combinator admits (`one_of("smhd")`) selects its variant and
    /// carries the count unchanged; the catch-all arm is dead.
    #[kani::proof]
    fn c07_time_unit_table() {
        let num: u64 = kani::any();
        let sel: u8 = kani::any();
        kani::assume(sel < 4);
        let unit = ['s', 'm', 'h', 'd'][sel as usize];
        let t = lifted_time_unit((num, unit));
        kani::cover!(sel == 3);
        let ok = match (unit, &t) {
            ('s', TimeSpec::Second(n)) => *n == num,
            ('m', TimeSpec::Minute(n)) => *n == num,
            ('h', TimeSpec::Hour(n)) => *n == num,
            ('d', TimeSpec::Day(n)) => *n == num,
            _ => false,
        };
        assert!(ok);
    }
}
