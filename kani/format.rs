// Kani harnesses for src/find_parser/format.rs (appended under #[cfg(kani)]).
#[cfg(kani)]
mod verif_kani {
    use super::*;

    //@LIFTED@

    /// C03: the octal escape conversion cannot panic on anything its combinator admits
    /// (`take_while(3..=3, octal digits)`): every three-digit octal string fits the result type,
    /// and the value is the octal value of the digits.
    #[kani::proof]
    #[kani::unwind(6)]
    fn c03_octal_escape_total() {
        let d: [u8; 3] = kani::any();
        kani::assume(d[0] >= b'0' && d[0] <= b'7');
        kani::assume(d[1] >= b'0' && d[1] <= b'7');
        kani::assume(d[2] >= b'0' && d[2] <= b'7');
        let s = core::str::from_utf8(&d).unwrap();
        let v = lifted_octal_escape(s);
        kani::cover!(v == 0o777);
        assert!(v as u32 == ((d[0] - b'0') as u32) * 64 + ((d[1] - b'0') as u32) * 8 + (d[2] - b'0') as u32);
    }
}
